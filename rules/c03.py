"""C03 -- phase sets = read-connected components, named by leftmost variant (structural clauses)."""
import ast
import re

from sa.model import walk_function, AnalysisError
from sa.norm import u, atoms, guard_atoms, linear, canon_bool
from sa import util

PROPERTY = "C03"
NEEDS_PYX = False
PH = "whatshap.cli.phase"
G = "whatshap.graph.ComponentFinder"

EXPLANATION = (
    "Decides: R1 min-root -- ComponentFinder.merge links the root with the larger value under the root with the smaller one (comparison-consistent assignment on both branches), "
    "_find_node only re-points nodes to the loop-terminated root, find returns the root's value; R2 all-pairs-through-first -- find_components merges every filtered position of a read with the "
    "first one (positions[1:], no narrower slice), filters exactly by membership in the phased positions (and heterozygosity only when a het map is passed), and maps every phased position to its "
    "representative; R3 same reads -- the read set handed to the solver, to compute_overall_components and to the read list is one value (merge_readsets(readsets)); "
    "R4 master block -- it is passed only when len(family) > 1 and genetic_haplotyping, and is homozygous ∩ accessible (or the re-derived homozygous set under --distrust-genotypes); "
    "R5 one-based naming -- PS/HP/HS write component + 1 where the component is a 0-based record.start position."
)
EXPLANATION += (
    " " + "R2 also: every definition of a read's `positions` in find_components is a comprehension over the read's own variants (a slice of the global position list would merge positions the read does not cover)."
)
EXPLANATION += (
    " " + "R4 also: every sample's set of heterozygous positions is an object of its own (no dict.fromkeys(keys, <mutable>))."
)
NOT_DECIDED = "That the union-find ends with the right partition for every merge sequence (C18's history quantifier); effects of read selection on connectivity."
ASSUMPTIONS = ["values handed to one ComponentFinder are distinct and totally ordered by <"]


def r1(ctx):
    m = ctx.func(G + ".merge")
    cfg = ctx.cfg(m)
    x, y = util.params_of(m.node)[1:3]
    roots = {}
    for n in walk_function(m.node):
        if isinstance(n, ast.Assign) and isinstance(n.value, ast.Call) and u(n.value.func) == "self._find_node" and isinstance(n.targets[0], ast.Name):
            roots[n.targets[0].id] = u(n.value.args[0])
    ok = sorted(roots.values()) == sorted([x, y])
    ctx.ob(m.qual, "roots-of-both-arguments", ok, m.loc(), "merge works on the roots of both arguments" if ok else "merge does not take _find_node of both arguments")
    # path-sensitive summary of merge: guard style, temporaries and `parent, child = ...` selections do not matter
    from sa import pathfx

    RX, RY = "self._find_node(%s)" % x, "self._find_node(%s)" % y
    same_atom = "%s is %s" % tuple(sorted([RX, RY]))
    sums = pathfx.summaries(cfg)
    ctx.require(len(sums) >= 2, "merge has fewer than two feasible paths")
    orientations = set()
    n_store_paths = 0
    for ps in sums:
        st = [(u(e[1].value), u(e[2]), e[3]) for e in ps.stores("parent")]
        if not st:
            continue
        n_store_paths += 1
        where = m.loc(st[0][2])
        if len(st) != 1 or {st[0][0], st[0][1]} != {RX, RY}:
            ctx.ob(m.qual, "smaller-root-becomes-parent:%s" % ";".join("%s.parent=%s" % (c_, p_) for c_, p_, _ in st), False, where, "on one path merge links %s: not exactly one of the two roots below the other" % ["%s.parent = %s" % (c_, p_) for c_, p_, _ in st], cfg.describe_path(ps.path))
            continue
        child, parent = st[0][0], st[0][1]
        orientations.add((child, parent))
        smaller = ps.has("%s.value < %s.value" % (parent, child), True) or ps.has("%s.value < %s.value" % (child, parent), False) or ps.has("%s.value <= %s.value" % (parent, child), True) or ps.has("%s.value <= %s.value" % (child, parent), False)
        distinct = ps.has(same_atom, False)
        ok = smaller and distinct
        short = lambda t: t.replace(RX, x + "_root").replace(RY, y + "_root")
        ctx.ob(m.qual, "smaller-root-becomes-parent:%s.parent=%s" % (short(child), short(parent)), ok, where, "%s.parent = %s only on a path that established the two roots differ and %s.value is not larger: the smaller value stays root" % (short(child), short(parent), short(parent)) if ok else ("%s.parent = %s is reached without having established that %s has the smaller value: the representative is no longer the minimum" % (short(child), short(parent), short(parent)) if not smaller else "%s.parent = %s is reached without the roots being known to differ (a root would become its own parent)" % (short(child), short(parent))), cfg.describe_path(ps.path))
    ctx.require(n_store_paths >= 1, "no path of merge stores a .parent")
    ok = orientations == {(RX, RY), (RY, RX)}
    ctx.ob(m.qual, "both-orientations-handled", ok, m.loc(), "either root can become the child, depending on the comparison" if ok else "merge does not handle both orientations")
    quiet = [ps for ps in sums if not ps.stores("parent")]
    ok = bool(quiet) and all(ps.has(same_atom, True) for ps in quiet)
    ctx.ob(m.qual, "same-root-returns", ok, m.loc(), "merge leaves the forest untouched exactly when both arguments already have the same root" if ok else "merge can finish without linking two different roots (or has no case for identical roots)")
    f = ctx.func(G + "._find_node")
    fcfg = ctx.cfg(f)
    # the upward walk: `while R.parent is not None: R = R.parent`; R and names copied from it afterwards are "root names"
    walks = []
    for w in walk_function(f.node):
        if isinstance(w, ast.While):
            at = atoms(w.test, True)
            for b_ in w.body:
                if isinstance(b_, ast.Assign) and len(b_.targets) == 1 and isinstance(b_.targets[0], ast.Name) and u(b_.value) == "%s.parent" % b_.targets[0].id and at == {("None is %s.parent" % b_.targets[0].id, False)}:
                    # besides the step, the body may only record the visited node (`path.append(R)`)
                    others = [x for x in w.body if x is not b_]
                    if all(isinstance(x, ast.Expr) and isinstance(x.value, ast.Call) and isinstance(x.value.func, ast.Attribute) and x.value.func.attr == "append" and [u(a_) for a_ in x.value.args] == [b_.targets[0].id] for x in others):
                        walks.append((w, b_.targets[0].id))
    root_names = set()
    if len(walks) == 1:
        w, R = walks[0]
        root_names.add(R)
        wn = fcfg.node_of(w)
        for s_, v in [(n, n.value) for n in walk_function(f.node) if isinstance(n, ast.Assign)]:
            if isinstance(v, ast.Name) and v.id in root_names and fcfg.dominates(wn, fcfg.node_of(s_)) and not any(x is s_ for x in ast.walk(w)):
                for t in s_.targets:
                    if isinstance(t, ast.Name):
                        root_names.add(t.id)
        # a root name must not be re-bound after the walk
        for nm in list(root_names):
            for s_, v in util.assignments_to(f.node, nm):
                if isinstance(s_, ast.stmt) and not any(x is s_ for x in ast.walk(w)) and fcfg.find_path(wn, fcfg.node_of(s_)) is not None and not (isinstance(v, ast.Name) and v.id in root_names):
                    if nm != R or True:
                        if not (isinstance(v, ast.AST) and isinstance(v, ast.Name) and v.id in root_names):
                            root_names.discard(nm) if nm != R else None
    pstores = []
    for n in walk_function(f.node):
        if isinstance(n, ast.Assign):
            for t0 in n.targets:
                if isinstance(t0, ast.Tuple) and isinstance(n.value, ast.Tuple):
                    pairs = list(zip(t0.elts, n.value.elts))
                else:
                    pairs = [(t0, n.value)]
                for t, v in pairs:
                    if isinstance(t, ast.Attribute) and t.attr == "parent":
                        pstores.append((n, v))
    ok = (None if not walks else (len(walks) == 1 and bool(pstores)))
    for n, v in pstores:
        okv = isinstance(v, ast.Name) and v.id in root_names
        okpos = (None if not walks else (len(walks) == 1 and fcfg.dominates(fcfg.node_of(walks[0][0]), fcfg.node_of(n)) and not any(x is n for x in ast.walk(walks[0][0]))))
        ok = ok and okv and okpos
    ctx.ob(f.qual, "compression-points-to-the-root", ok, f.loc(), "path compression only re-points nodes to the root found by the completed upward walk" if ok else "_find_node assigns a .parent that is not the terminated root")
    rets = [n for n in walk_function(f.node) if isinstance(n, ast.Return)]
    ok = bool(rets)
    for r_ in rets:
        if not isinstance(r_.value, ast.Name):
            ok = False
            continue
        nm_ = r_.value.id
        ga_ = guard_atoms(fcfg, fcfg.node_of(r_))
        after_walk = nm_ in root_names and len(walks) == 1 and fcfg.dominates(fcfg.node_of(walks[0][0]), fcfg.node_of(r_))
        known_root = ("None is %s.parent" % nm_, True) in ga_  # `if node.parent is None: return node`
        if not (after_walk or known_root):
            ok = False
    ctx.ob(f.qual, "returns-the-root", ok and len(walks) == 1, f.loc(), "_find_node walks parent links until None and returns that node" if ok and walks else "_find_node does not return the node whose parent is None")
    fd = ctx.func(G + ".find")
    rets = [n for n in walk_function(fd.node) if isinstance(n, ast.Return)]
    ok = (None if not rets else (len(rets) == 1 and u(rets[0].value) == "self._find_node(%s).value" % util.params_of(fd.node)[1]))
    ctx.ob(fd.qual, "find-returns-root-value", ok, fd.loc(), "find(x) is the value of x's root" if ok else "find does not return _find_node(x).value")


def _anchor_form(ctx, fc, cfg, read_loop, readv, het_p):
    """find_components written as: anchor = None; for v in read: (skip unusable) ; if anchor is None: anchor = pos else: merge(anchor, pos).
    Emits the read-side obligations of R2 and returns the merge call, or None if the function does not have this form."""
    import itertools
    from rules.common import tt_eval

    inner = [n for n in ast.walk(read_loop) if isinstance(n, ast.For) and n is not read_loop and u(n.iter) == readv]
    if len(inner) != 1:
        return None
    vl = inner[0]
    var = u(vl.target)
    merges = [c for c in ast.walk(vl) if isinstance(c, ast.Call) and u(c.func) == "component_finder.merge" and len(c.args) == 2]
    if len(merges) != 1 or not isinstance(merges[0].args[0], ast.Name):
        return None
    m = merges[0]
    A = m.args[0].id
    pos_txt = u(util.resolve_locals(fc.node, m.args[1], scope=vl))
    inits = [(s_, v) for s_, v in util.assignments_to(fc.node, A)]
    none_inits = [s_ for s_, v in inits if isinstance(v, ast.Constant) and v.value is None]
    sets = [s_ for s_, v in inits if isinstance(v, ast.AST) and not (isinstance(v, ast.Constant) and v.value is None)]
    # per read: initialised to None inside the read loop, before the variant loop
    ok_init = (None if not none_inits else (len(none_inits) == 1 and none_inits[0].parent is read_loop and cfg.dominates(cfg.node_of(none_inits[0]), cfg.node_of(vl))))
    ok_set = (None if not sets else (len(sets) == 1 and u(util.resolve_locals(fc.node, sets[0].value, scope=vl)) == pos_txt and any(x is sets[0] for x in ast.walk(vl))))
    ga_set = util.resolved_guard_atoms(cfg, fc.node, cfg.node_of(sets[0]), keep=(A,), scope=vl) if ok_set else set()
    ga_m = util.resolved_guard_atoms(cfg, fc.node, cfg.node_containing(m), keep=(A,), scope=vl)
    ok_anchor = ok_init and ok_set and ("None is %s" % A, True) in ga_set and ("None is %s" % A, False) in ga_m and pos_txt == "%s.position" % var
    ctx.ob(fc.qual, "read-positions-come-from-the-read", ok_anchor, fc.loc(m), "per read, the first usable position of the read's own variants becomes the anchor (reset to None for every read)" if ok_anchor else "the anchor `%s` is not the first usable position of the read's own variants, reset for every read" % A)
    ctx.ob(fc.qual, "all-merged-with-first:anchor", ok_anchor and u(m.args[1]) is not None, fc.loc(m), "every later usable position of the read is merged with the anchor" if ok_anchor else "later positions are not merged with the read's first usable position")
    # which positions are usable: the conditions common to the anchor assignment and the merge
    common = {(t, p) for t, p in ga_set & ga_m if not t.startswith("<iter>")}
    Aa, Bb, Cc = "%s.position in phased_positions_set" % var, "None is %s" % het_p, "%s.position in %s[%s.sample_id]" % (var, het_p, readv)
    wrong, unknown = None, None
    for va, vb, vc in itertools.product((False, True), repeat=3):
        env = {Aa: va, Bb: vb, Cc: vc}
        try:
            got = True
            for t, p in common:
                e_ = ast.parse(t, mode="eval").body
                if tt_eval(e_, env) != p:
                    got = False
        except (ValueError, SyntaxError) as ex_:
            unknown = str(ex_)
            break
        if got != (va and (vb or vc)) and wrong is None:
            wrong = "phased=%s, het map absent=%s, het in sample=%s -> used=%s" % (va, vb, vc, got)
    if unknown:
        ctx.ob(fc.qual, "read-positions-filter:any", None, fc.loc(vl), "a skip condition of the variant loop is outside {phased position, het map present, het in the read's sample}: %s" % unknown)
    else:
        ctx.ob(fc.qual, "read-positions-filter:any", wrong is None, fc.loc(vl), "a position of the read is used exactly if it is phased and (if a het map is given) heterozygous in the read's sample -- checked over all valuations of the three conditions" if wrong is None else "usable-position filter gives %s" % wrong)
    # nothing else skips a read: the read loop and the variant loop have no early exit
    exits = util.lexical_loop_exits(read_loop)
    ctx.ob(fc.qual, "every-read-contributes-its-links", not exits, fc.loc(exits[0]) if exits else fc.loc(read_loop), "the read loop and the variant loop are only left when exhausted" if not exits else "a read (or the rest of its variants) can be skipped by `%s`" % u(exits[0]))
    return m


def r2(ctx):
    fc = ctx.func(PH + ".find_components")
    cfg = ctx.cfg(fc)
    params = util.params_of(fc.node)
    pp, reads_p, mb_p, het_p = params[:4]
    cf = [v for s, v in util.assignments_to(fc.node, "component_finder") if isinstance(v, ast.AST)]
    ok = (None if not cf else (len(cf) == 1 and u(cf[0]) == "ComponentFinder(%s)" % pp))
    ctx.ob(fc.qual, "finder-over-phased-positions", ok, fc.loc(), "the union-find is initialised with exactly the phased positions" if ok else "ComponentFinder is not built from %s" % pp)
    sdef = util.single_def(fc.node, "phased_positions_set")
    ok = sdef is not None and u(sdef) == "set(%s)" % pp
    ctx.ob(fc.qual, "membership-set-is-the-phased-positions", ok, fc.loc(), "phased_positions_set = set(phased_positions)" if ok else "phased_positions_set is %s" % (u(sdef) if sdef is not None else "?"))
    rl = [n for n in walk_function(fc.node) if isinstance(n, ast.For) and u(n.iter) == reads_p]
    ctx.require(len(rl) == 1, "loop over reads not found in find_components")
    readv = u(rl[0].target)
    alldefs = [(s, v) for s, v in util.assignments_to(fc.node, "positions") if isinstance(v, ast.AST)]
    comps = [(s, v) for s, v in alldefs if isinstance(v, ast.ListComp)]
    anchor_merge = None
    if not alldefs:
        # form B: one pass over the read's variants with an anchor -- the first usable position of the read --
        # that every later usable position is merged with
        anchor_merge = _anchor_form(ctx, fc, cfg, rl[0], readv, het_p)
        if anchor_merge is None:
            ctx.ob(fc.qual, "read-positions-come-from-the-read", None, fc.loc(rl[0]), "find_components neither collects a read's `positions` nor merges them through a first-usable-position anchor")
            return
    for s, v in alldefs:
        if not isinstance(v, ast.ListComp):
            ctx.ob(fc.qual, "read-positions-come-from-the-read", False, fc.loc(s), "positions = %s is not a selection of the read's own variant positions: positions the read does not cover would be merged into its component" % u(v)[:80])
    if len(comps) == len(alldefs):
        ctx.ob(fc.qual, "read-positions-come-from-the-read", True, fc.loc(), "every definition of `positions` (%d) is a comprehension over the read's own variants" % len(comps))
    import itertools
    from rules.common import tt_eval

    # which positions of a read are used: read path by path from the start of the read loop's body to the merge loop, with
    # the definitions of `positions` composed (a second comprehension over `positions` filters the first one's result)
    from sa import pathfx

    def flatten(e):
        """(base iterable text, element expr, [conditions]) of a (possibly nested) list comprehension over the read"""
        if not (isinstance(e, (ast.ListComp, ast.GeneratorExp)) and len(e.generators) == 1):
            return None
        g = e.generators[0]
        inner = flatten(g.iter) if isinstance(g.iter, (ast.ListComp, ast.GeneratorExp)) else None
        if inner is None:
            return u(g.iter), u(g.target), e.elt, list(g.ifs)
        base, var, ielt, iconds = inner
        if not isinstance(g.target, ast.Name):
            return None
        env_ = {g.target.id: ielt}
        return base, var, pathfx.subst(e.elt, env_), iconds + [pathfx.subst(c_, env_) for c_ in g.ifs]

    def empty_under(ps, vb):
        """Is `positions` known to be empty on this path when the het map is absent (vb) / present (not vb)?  Reads the not-taken
        side of `if <het map given> and positions:` -- a conjunction that failed although its het-map conjunct holds."""
        for t_, p_ in ps.atoms:
            if p_:
                continue
            try:
                e_ = ast.parse(t_, mode="eval").body
            except SyntaxError:
                continue
            vals = e_.values if isinstance(e_, ast.BoolOp) and isinstance(e_.op, ast.And) else [e_]
            rest = []
            for v_ in vals:
                at_ = atoms(v_, True)
                if at_ == {("None is %s" % het_p, False)}:
                    if vb:
                        rest = None  # this conjunct is false itself: nothing follows for the others
                        break
                elif at_ == {("None is %s" % het_p, True)}:
                    if not vb:
                        rest = None
                        break
                else:
                    rest.append(v_)
            if rest is not None and len(rest) == 1:
                r0 = rest[0]
                if isinstance(r0, ast.Compare) and len(r0.ops) == 1 and isinstance(r0.ops[0], (ast.Gt, ast.Lt)):
                    r0 = r0.left if isinstance(r0.ops[0], ast.Gt) else r0.comparators[0]
                if isinstance(r0, ast.Call) and u(r0.func) == "len" and len(r0.args) == 1:
                    r0 = r0.args[0]
                cur = ps.env.get("positions")
                if u(r0) == "positions" or (cur is not None and u(r0) == u(cur)):
                    return True
        return False

    mls = [n for n in ast.walk(rl[0]) if isinstance(n, ast.For) and n is not rl[0] and any(isinstance(c, ast.Call) and u(c.func) == "component_finder.merge" for c in ast.walk(n))]
    if comps and len(mls) == 1:
        body0 = [b for b in cfg.succ(cfg.node_of(rl[0]), "loop")]
        psums = []
        for b0 in body0:
            psums += pathfx.summaries(cfg, b0, cfg.node_of(mls[0]), opaque=(readv,))
        seen_names = set()
        for ps in psums:
            val = ps.env.get("positions")
            fl = flatten(val) if val is not None else None
            name = "no-het-map" if ps.has("None is %s" % het_p, True) else ("with-het-map" if ps.has("None is %s" % het_p, False) else "any")
            if fl is None:
                ctx.ob(fc.qual, "read-positions-filter:%s" % name, None, fc.loc(mls[0]), "cannot read what `positions` holds on a path into the merge loop (%s)" % (u(val)[:80] if val is not None else "undefined"))
                continue
            base, var, elt, conds = fl
            base_ok = base == readv and u(elt) == "%s.position" % var
            A, B, C = "%s.position in phased_positions_set" % var, "None is %s" % het_p, "%s.position in %s[%s.sample_id]" % (var, het_p, readv)
            cond = ast.BoolOp(op=ast.And(), values=conds) if len(conds) > 1 else (conds[0] if conds else None)
            wrong = None
            try:
                for va, vb, vc in itertools.product((False, True), repeat=3):
                    if (ps.has(B, True) and not vb) or (ps.has(B, False) and vb):
                        continue  # valuation excluded by the guards of this path
                    if empty_under(ps, vb):
                        continue  # on this path and under this valuation `positions` is empty: nothing is contributed
                    got = tt_eval(cond, {A: va, B: vb, C: vc}) if cond is not None else True
                    if got != (va and (vb or vc)) and wrong is None:
                        wrong = "phased=%s, het map absent=%s, het in sample=%s -> included=%s" % (va, vb, vc, got)
                okf = base_ok and wrong is None
                msg = "position filter `%s` gives %s" % (u(cond)[:90] if cond is not None else "<none>", wrong) if wrong else "comprehension is not over the read's own variants"
            except ValueError as e:
                okf, msg = None, "position filter `%s` uses a condition outside {phased position, het map present, het in the read's sample}: %s" % (u(cond)[:90], e)
            # a path on which `positions` is known to be empty contributes nothing, whatever the filter says
            if okf is False and (ps.has("positions", False) or ps.has("0 < len(positions)", False)) and base_ok:
                okf, msg = True, ""
            key = (name, u(cond) if cond is not None else "")
            if key in seen_names:
                continue
            seen_names.add(key)
            ctx.ob(fc.qual, "read-positions-filter:%s" % name, okf, fc.loc(mls[0]), "a read contributes exactly its positions that are phased and (if a het map is given) heterozygous in the read's sample -- checked over all valuations of the three conditions, path by path" if okf else msg)
    elif comps:
        ctx.ob(fc.qual, "read-positions-filter:any", None, fc.loc(rl[0]), "merge loop of the read loop not found")
    merges = [c for c in ctx.prog.calls_in(fc.node) if u(c.func) == "component_finder.merge"]
    ctx.require(len(merges) >= 1, "no component_finder.merge call in find_components")
    if not any("master_block" in u(c) or mb_p in u(c) for c in merges):
        uses_mb = any(isinstance(x, ast.Name) and x.id == mb_p and isinstance(x.ctx, ast.Load) for x in walk_function(fc.node))
        ctx.ob(fc.qual, "master-block-merged-when-given", False if uses_mb else None, fc.loc(), "the master block is not joined through the union-find (component_finder.merge): the merged set is no longer named by the minimum of its members" if uses_mb else "the master block is not used in find_components")
    for c in merges:
        if c is anchor_merge:
            continue  # judged by _anchor_form
        lp = c
        while lp is not None and not isinstance(lp, ast.For):
            lp = lp.parent
        seq = None
        ok = False
        if lp is not None and isinstance(lp.iter, ast.Subscript) and isinstance(lp.iter.slice, ast.Slice):
            sl = lp.iter.slice
            seq = u(lp.iter.value)
            ok = isinstance(sl.lower, ast.Constant) and sl.lower.value == 1 and sl.upper is None and sl.step is None
            ok = ok and u(c.args[0]) == "%s[0]" % seq and u(c.args[1]) == u(lp.target)
        ctx.ob(fc.qual, "all-merged-with-first:%s" % seq, ok, fc.loc(c), "every element of %s after the first is merged with %s[0]" % (seq, seq) if ok else "merge loop does not join all of %s[1:] with %s[0]" % (seq, seq))
    # every read of the read set reaches its merge loop: nothing skips a read
    read_merge = [c for c in merges if "master_block" not in u(c) and mb_p not in u(c)]
    if read_merge and anchor_merge is None:
        ml = read_merge[0]
        while ml is not None and not isinstance(ml, ast.For):
            ml = ml.parent
        mnode = cfg.node_of(ml)
        # a branch on which the merged sequence has fewer than two elements may skip the (then empty) merge loop
        seqtxt = u(ml.iter.value) if isinstance(ml.iter, ast.Subscript) else u(ml.iter)
        short = util.edges_implying_short(cfg, seqtxt, 1)
        short_e = util.edges_implying_short(cfg, seqtxt, 1, as_edges=True)
        probs = util.check_loop_conservation(cfg, rl[0], lambda n: n == mnode or n in short, sink_edges=short_e)
        ctx.ob(fc.qual, "every-read-contributes-its-links", not probs, fc.loc(rl[0]), "every read of the set reaches the merge loop (no read is skipped, the read loop has no early exit)" if not probs else "a read can be skipped before its positions are merged: variants it links end up in different phase sets", cfg.describe_path(probs[0][1]) if probs else None)
    mbm = [c for c in merges if "master_block" in u(c) or mb_p in u(c)]
    ok = (None if not mbm else (len(mbm) == 1 and ("None is %s" % mb_p, False) in guard_atoms(cfg, cfg.node_containing(mbm[0]))))
    ctx.ob(fc.qual, "master-block-merged-when-given", ok, fc.loc(mbm[0]) if mbm else fc.loc(), "the master block is merged into one component whenever it is given" if ok else "master block merge is not guarded by `master_block is not None`")
    # what is returned, whether it is bound to a local first or not
    rets = [n for n in walk_function(fc.node) if isinstance(n, ast.Return) and n.value is not None]
    cd = None
    if len(rets) == 1:
        cd = rets[0].value
        if isinstance(cd, ast.Name):
            cd = util.single_def(fc.node, cd.id)
    pp = util.params_of(fc.node)[0]
    ok = None
    if isinstance(cd, ast.DictComp) and len(cd.generators) == 1:
        it = u(util.expand_single_defs(fc.node, cd.generators[0].iter))
        finders = {u(c_.func.value) for c_ in merges if isinstance(c_.func, ast.Attribute)}
        ok = it in ("set(%s)" % pp, pp, "sorted(%s)" % pp, "frozenset(%s)" % pp, "sorted(set(%s))" % pp) and not cd.generators[0].ifs and u(cd.key) == u(cd.generators[0].target) and isinstance(cd.value, ast.Call) and isinstance(cd.value.func, ast.Attribute) and cd.value.func.attr == "find" and u(cd.value.func.value) in finders and [u(a_) for a_ in cd.value.args] == [u(cd.key)]
    elif cd is not None and len(rets) == 1:
        ok = None
    elif len(rets) > 1:
        ok = None
    ctx.ob(fc.qual, "every-phased-position-mapped-to-its-representative", ok, fc.loc(), "components maps every phased position to find(position)" if ok else "returned mapping is not {p: find(p) for every phased position}")
    # merges happen before the mapping is read
    cn = cfg.node_containing(cd) if isinstance(cd, ast.DictComp) else None
    ok = (None if cn is None else all(cfg.find_path(cn, cfg.node_containing(c)) is None for c in merges))
    ctx.ob(fc.qual, "mapping-after-all-merges", ok, fc.loc(), "the mapping is computed after all merges" if ok else "a merge can happen after the mapping was computed")


SOLVERS = ("HapChatCore", "PedMecHeuristic", "PedigreeDPTable")


def r3(ctx):
    run = ctx.func(PH + ".run_whatshap")
    solver_calls = [s for s in ctx.prog.calls_in(run.node) if isinstance(s.func, ast.Name) and s.func.id in SOLVERS]
    ctx.require(len(solver_calls) == 3, "expected three solver constructions")
    names = {u(s.args[0]) for s in solver_calls if s.args}
    ok = len(names) == 1
    reads = list(names)[0] if ok else None
    defs = [v for _, v in util.assignments_to(run.node, reads)] if ok else []
    okd = (None if not defs else (len(defs) == 1 and isinstance(defs[0], ast.Call) and u(defs[0].func) == "merge_readsets" and u(defs[0].args[0]) == "readsets"))
    ctx.ob(run.qual, "one-read-set-for-all-solvers", ok and okd, run.loc(), "all three solvers are built from `%s = merge_readsets(readsets)`" % reads if ok and okd else "solvers are built from %s" % sorted(names))
    coc = [c for c in ctx.prog.calls_in(run.node) if u(c.func) == "compute_overall_components"]
    ctx.require(len(coc) == 1, "compute_overall_components call not found")
    cparams = util.params_of(ctx.func(PH + ".compute_overall_components").node)
    amap = dict(zip(cparams, [u(a) for a in coc[0].args]))
    ok = amap.get("all_reads") == reads
    ctx.ob(run.qual, "components-from-the-solvers-reads", ok, run.loc(coc[0]), "components are computed from the same read set the solver phased" if ok else "compute_overall_components gets %s, the solver %s" % (amap.get("all_reads"), reads))
    oc = ctx.func(PH + ".compute_overall_components")
    fcs = [c for c in ctx.prog.calls_in(oc.node) if u(c.func) == "find_components"]
    ok = (None if not fcs else all([u(a) for a in c_.args[:2]] == ["accessible_positions", "all_reads"] for c_ in fcs))
    ctx.ob(oc.qual, "find-components-gets-those-reads", ok, oc.loc(fcs[0]) if fcs else oc.loc(), "find_components(accessible_positions, all_reads, ...)" if ok else "find_components is not called with the accessible positions and the solver's reads")
    # readsets[sample] is the selected read set of that sample; merge_readsets adds every read
    st = [s for s in util.store_sites(run.node) if s.kind == "subscript" and u(s.target.value) == "readsets"]
    ok = (None if not st else (len(st) == 1 and u(st[0].target.slice) == "sample" and u(st[0].value) == "selected_reads"))
    ctx.ob(run.qual, "readsets-hold-the-selected-reads", ok, run.loc(st[0].stmt) if st else run.loc(), "readsets[sample] = the reads selected for that sample" if ok else "readsets[sample] is not the selected read set")
    mr = ctx.func(PH + ".merge_readsets")
    mcfg = ctx.cfg(mr)
    loops = [n for n in walk_function(mr.node) if isinstance(n, ast.For)]
    rs_p = util.params_of(mr.node)[0]
    adders = [n for n in loops if any(isinstance(c, ast.Call) and isinstance(c.func, ast.Attribute) and c.func.attr == "add" and c.args and u(c.args[0]) == u(n.target) for c in ast.walk(n))]
    ok = None
    if len(adders) == 1:
        inner = adders[0]
        outer = [n for n in loops if n is not inner and inner in list(ast.walk(n))]
        vals = ("%s.values()" % rs_p,)
        src = None  # does the innermost loop run over every read of every read set of the mapping?
        it = u(inner.iter)
        if not outer and it in ("chain.from_iterable(%s)" % vals[0], "itertools.chain.from_iterable(%s)" % vals[0], "chain(*%s)" % vals[0], "itertools.chain(*%s)" % vals[0]):
            src = True
        elif len(outer) == 1:
            o = outer[0]
            oi, ot = u(o.iter), o.target
            if oi == "%s.items()" % rs_p and isinstance(ot, ast.Tuple) and len(ot.elts) == 2 and it == u(ot.elts[1]):
                src = True
            elif oi == vals[0] and it == u(ot):
                src = True
            elif oi in (rs_p, "%s.keys()" % rs_p, "sorted(%s)" % rs_p, "list(%s)" % rs_p) and it == "%s[%s]" % (rs_p, u(ot)):
                src = True
        if src:
            probs = util.check_loop_conservation(mcfg, inner, lambda n: mcfg.kind(n) == "stmt" and any(isinstance(c, ast.Call) and isinstance(c.func, ast.Attribute) and c.func.attr == "add" and c.args and u(c.args[0]) == u(inner.target) for c in ast.walk(mcfg.ast(n))))
            ok = not probs
            if ok and outer:
                ih = mcfg.node_of(inner)
                ok = not util.check_loop_conservation(mcfg, outer[0], lambda n: n == ih)
            adds = [c for c in ast.walk(inner) if isinstance(c, ast.Call) and isinstance(c.func, ast.Attribute) and c.func.attr == "add" and c.args and u(c.args[0]) == u(inner.target)]
            rets = [n for n in walk_function(mr.node) if isinstance(n, ast.Return) and n.value is not None]
            ok = ok and len(rets) == 1 and all(u(c.func.value) == u(rets[0].value) for c in adds)
    elif len(adders) > 1:
        ok = None
    elif loops:
        ok = False
    ctx.ob(mr.qual, "merge-keeps-every-read", ok, mr.loc(), "merge_readsets adds every read of every sample" if ok else "merge_readsets can drop a read")
    # positions the solver knows == positions components are computed for
    ap = [(s, v) for s, v in util.assignments_to(run.node, "accessible_positions") if isinstance(v, ast.AST)]
    want_ = "sorted(%s.get_positions())" % reads
    ok = (None if not ap else (len(ap) == 2 and u(ap[0][1]) == want_))
    if ap and not ok:
        # the covered positions may have a name of their own before they become (part of) the accessible ones
        exp_ = {u(util.expand_single_defs(run.node, v_, keep=(reads,))) for s_, v_ in ap}
        ok = True if want_ in exp_ and all(want_ in x_ or x_ == want_ for x_ in exp_) else ok
    ctx.ob(run.qual, "accessible-positions-from-those-reads", ok, run.loc(ap[0][0]) if ap else run.loc(), "accessible positions are the positions covered by the solver's reads" if ok else "accessible_positions is not sorted(all_reads.get_positions())")


def r4(ctx):
    oc = ctx.func(PH + ".compute_overall_components")
    cfg = ctx.cfg(oc)
    # what reaches find_components as master block, read path by path: whatever the layout (one exit or one call per mode, a
    # None default or an else branch, if statements or conditional expressions)
    from sa import pathfx

    fcs = [c for c in ctx.prog.calls_in(oc.node) if u(c.func) == "find_components"]
    ctx.require(len(fcs) >= 1, "compute_overall_components no longer calls find_components")
    fparams = util.params_of(ctx.func(PH + ".find_components").node)
    mutated = {util.root_name(s_.target) for s_ in util.store_sites(oc.node) if s_.kind == "call"} | {"accessible_positions_set"}
    # containers created empty are filled later, possibly through an alias (a dict of target sets): they stand for themselves
    created_empty = set()
    for n_ in walk_function(oc.node):
        if isinstance(n_, (ast.Assign, ast.AnnAssign)) and n_.value is not None:
            t_ = n_.targets[0] if isinstance(n_, ast.Assign) else n_.target
            if isinstance(t_, ast.Name) and u(n_.value) in ("set()", "dict()", "list()", "[]", "{}", "defaultdict(set)", "defaultdict(list)"):
                mutated.add(t_.id)
                created_empty.add(t_.id)
    trusted_forms = ("sorted(set(homozygous_positions).intersection(accessible_positions_set))", "sorted(accessible_positions_set.intersection(homozygous_positions))", "sorted(set(homozygous_positions) & accessible_positions_set)", "sorted(accessible_positions_set & set(homozygous_positions))")
    seen = {}
    for c in fcs:
        b = util.bound_args(c, ctx.func(PH + ".find_components").node, skip_self=False)
        if b is None:
            ctx.ob(oc.qual, "master-block-passed-on", None, oc.loc(c), "cannot bind the arguments of find_components(...)")
            continue
        marg = b.get(fparams[2])
        for ps in pathfx.summaries(cfg, dst=cfg.node_containing(c), opaque=tuple(x for x in mutated if x)):
            val = pathfx.subst(marg, ps.env) if marg is not None else ast.Constant(value=None)
            # a name kept symbolic because it is filled in place on SOME path stands for its value on a path that binds it
            # to a finished expression
            lastb = {}
            for e_ in ps.effects:
                if e_[0] == "bind":
                    lastb[e_[1].id] = e_[2]
            val = pathfx.subst(val, {k_: v_ for k_, v_ in lastb.items() if k_ in created_empty and u(v_) not in ("set()", "dict()", "list()", "[]", "{}", "defaultdict(set)", "defaultdict(list)")})
            fam = ps.has("1 < len(family)", True) and ps.has("genetic_haplotyping", True)
            nofam = ps.has("1 < len(family)", False) or ps.has("genetic_haplotyping", False) or any((not p_) and "len(family)" in t_ and "genetic_haplotyping" in t_ for t_, p_ in ps.atoms)
            dis = True if ps.has("distrust_genotypes", True) else (False if ps.has("distrust_genotypes", False) else None)
            mode = {True: "distrust", False: "trusted", None: "both"}[dis]
            is_none = isinstance(val, ast.Constant) and val.value is None
            if is_none:
                kind, okv = "none", (True if nofam else (False if fam else None))
                why = "no master block without a real family / genetic haplotyping" if okv else ("no master block is passed although len(family) > 1 and genetic haplotyping is on (%s genotypes)" % mode if okv is False else "cannot tell under which conditions None is passed as master block")
            else:
                kind = "value"
                if not fam:
                    # a guard that was read and lacks a conjunct is a violation; a condition this rule cannot read is not
                    need = [t_ for t_ in ("1 < len(family)", "genetic_haplotyping") if not ps.has(t_, True)]
                    unread = any(t_ not in ("1 < len(family)", "genetic_haplotyping") and any(k_ in t_ for k_ in ("len(family)", "genetic_haplotyping")) for t_, p_ in ps.atoms)
                    okv, why = (None if unread and not nofam else False), "master block %s is passed without the guard %s" % (u(val)[:60], " and ".join(need))
                elif dis is True:
                    okv = u(val) == "sorted(hom_in_any_sample)"
                    why = "under --distrust-genotypes the block is the re-derived homozygous set" if okv else "master block under --distrust-genotypes is %s" % u(val)[:80]
                elif dis is False:
                    okv = u(val) in trusted_forms
                    why = "the block is homozygous ∩ accessible" if okv else "master block with trusted genotypes is %s" % u(val)[:80]
                else:
                    okv = False if "homozygous_positions" in u(val) else None
                    why = "master_block = %s also under --distrust-genotypes, where the homozygous sites have to be re-derived from the phasing result" % u(val)[:80]
            key = (mode, kind)
            prev = seen.get(key)
            if prev is None or (prev[0] is True and okv is not True):
                seen[key] = (okv, why, c)
    for (mode, kind), (okv, why, c) in sorted(seen.items()):
        ctx.ob(oc.qual, "master-block-%s:%s" % (kind, mode), okv, oc.loc(c), why)
    for m_, nm_ in (("distrust", "under"), ("trusted", "without")):
        if not any(k_[1] == "value" and k_[0] in (m_, "both") for k_ in seen):
            ctx.ob(oc.qual, "master-block-value:%s" % m_, False, oc.loc(), "no master block is defined %s --distrust-genotypes" % nm_)
    aps = util.single_def(oc.node, "accessible_positions_set")
    ok = aps is not None and u(aps) == "set(accessible_positions)"
    ctx.ob(oc.qual, "accessible-set", ok, oc.loc(), "accessible_positions_set = set(accessible_positions)" if ok else "accessible_positions_set changed")
    # every sample's set of heterozygous positions is its own object: dict.fromkeys(keys, set()) stores ONE set under every
    # key, so a position heterozygous in one family member would count as heterozygous in all of them
    shared = [c for c in ctx.prog.calls_in(oc.node) if u(c.func) in ("dict.fromkeys", "defaultdict.fromkeys", "OrderedDict.fromkeys") and len(c.args) == 2 and (isinstance(c.args[1], (ast.Set, ast.List, ast.Dict, ast.ListComp, ast.SetComp, ast.DictComp)) or (isinstance(c.args[1], ast.Call) and u(c.args[1].func) in ("set", "list", "dict", "defaultdict", "Counter")))]
    per_sample = [s_ for s_ in util.store_sites(oc.node) if s_.kind == "subscript" and u(s_.target.value) == "heterozygous_positions_by_sample"]
    ctx.ob(oc.qual, "per-sample-heterozygous-sets-are-distinct-objects", (False if shared else (True if per_sample else None)), oc.loc(shared[0]) if shared else oc.loc(), "each sample's heterozygous positions are collected in a set of its own" if not shared and per_sample else ("`%s` stores one and the same object under every key: all family members share one set of heterozygous positions, and reads link variants their own sample is homozygous for" % u(shared[0])[:80] if shared else "cannot see where the per-sample sets are stored"))
    # hom_in_any_sample only gets homozygous allele pairs of accessible positions
    # which super-read allele pairs put a position into hom_in_any_sample: a membership test on a literal set of pairs,
    # or a literal dict that maps allele pairs to the collecting sets
    adds = [c for c in ctx.prog.calls_in(oc.node) if u(c.func) == "hom_in_any_sample.add"]
    keys = key_expr = site = None
    if len(adds) == 1:
        site = adds[0]
        ga = util.resolved_guard_atoms(cfg, oc.node, cfg.node_containing(site), keep=("homozygous_gts", "heterozygous_gts"))
        for t, p_ in ga:
            m_ = re.fullmatch(r"(.+) in (\w+)", t)
            if m_ and p_:
                d_ = util.single_def(oc.node, m_.group(2))
                if d_ is not None:
                    try:
                        lit = ast.literal_eval(d_.args[0]) if isinstance(d_, ast.Call) and u(d_.func) in ("frozenset", "set") and d_.args else ast.literal_eval(d_)
                        keys, key_expr = set(lit), m_.group(1)
                    except Exception:
                        pass
    elif not adds:
        for n_ in walk_function(oc.node):
            if isinstance(n_, ast.Assign) and isinstance(n_.value, ast.Dict) and any(isinstance(v_, ast.Name) and v_.id == "hom_in_any_sample" for v_ in n_.value.values) and isinstance(n_.targets[0], ast.Name):
                D = n_.targets[0].id
                try:
                    table = {ast.literal_eval(k_): u(v_) for k_, v_ in zip(n_.value.keys, n_.value.values)}
                except Exception:
                    continue
                for c_ in ctx.prog.calls_in(oc.node):
                    if isinstance(c_.func, ast.Attribute) and c_.func.attr == "add":
                        recv_ = c_.func.value
                        td = util.single_def(oc.node, recv_.id) if isinstance(recv_, ast.Name) else recv_
                        if isinstance(td, ast.Call) and u(td.func) == "%s.get" % D and len(td.args) == 1:
                            gat = guard_atoms(cfg, cfg.node_containing(c_))
                            if ("None is %s" % u(recv_), False) in gat:
                                keys = {k_ for k_, v_ in table.items() if v_ == "hom_in_any_sample"}
                                key_expr, site = u(util.resolve_locals(oc.node, td.args[0])), c_
    if keys is None:
        ctx.ob(oc.qual, "rederived-homozygous-set", None, oc.loc(), "cannot tell for which super-read allele pairs a position enters hom_in_any_sample")
    else:
        ga = guard_atoms(cfg, cfg.node_containing(site))
        acc = any("accessible_positions_set" in t and p_ for t, p_ in ga)
        ok = keys == {(0, 0), (1, 1)} and key_expr.replace(" ", "") in ("(v1.allele,v2.allele)", "gt") and acc
        if key_expr == "gt":
            gd = util.single_def(oc.node, "gt")
            ok = ok and gd is not None and u(gd).replace(" ", "") == "(v1.allele,v2.allele)"
        ctx.ob(oc.qual, "rederived-homozygous-set", ok, oc.loc(site), "positions enter hom_in_any_sample only if the two super-read alleles are (0, 0) or (1, 1) and the position is accessible" if ok else "hom_in_any_sample is filled for allele pairs %s of %s (accessible-position guard: %s)" % (sorted(keys), key_expr, acc))


def r5(ctx):
    w = "whatshap.vcf.PhasedVcfWriter"
    ps = ctx.func(w + "._set_PS")
    comp = util.params_of(ps.node)[2]
    st = [s for s in util.store_sites(ps.node) if s.kind == "subscript" and util.const_key(s.target) == "PS"]
    ok = (None if not st else (len(st) == 1 and linear(st[0].value) == {comp: 1, "": 1}))
    ctx.ob(ps.qual, "PS-is-component-plus-1", ok, ps.loc(), "PS = component + 1" if ok else "PS is %s" % (u(st[0].value) if st else "?"))
    hp = ctx.func(w + "._set_HP")
    compp = util.params_of(hp.node)[2]
    js = [n for n in walk_function(hp.node, include_nested=True) if isinstance(n, ast.JoinedStr)]
    ok = False
    for j in js:
        fv = [v for v in j.values if isinstance(v, ast.FormattedValue)]
        if fv and linear(fv[0].value) == {compp: 1, "": 1}:
            ok = True
    ctx.ob(hp.qual, "HP-block-is-component-plus-1", ok, hp.loc(), "HP block id = component + 1" if ok else "HP block id is not component + 1")
    for f in (ps, hp):
        hs = [s for s in util.store_sites(f.node) if s.kind == "subscript" and util.const_key(s.target) == "HS"]
        ok = (None if not hs else (len(hs) == 1 and isinstance(hs[0].value, ast.ListComp) and linear(hs[0].value.elt) == {u(hs[0].value.generators[0].target): 1, "": 1}))
        ctx.ob(f.qual, "HS-is-component-plus-1", ok, f.loc(), "HS entries = haploid component + 1" if ok else "HS entries are not component + 1")
    wr = ctx.func(w + ".write")
    setter = [c for c in ctx.prog.calls_in(wr.node) if u(c.func) == "self._set_phasing_tags"]
    def by_pos(e):
        while isinstance(e, (ast.Attribute, ast.Subscript)) and not (isinstance(e, ast.Subscript) and u(e.slice) == "pos"):
            e = e.value
        return isinstance(e, ast.Subscript) and u(e.slice) == "pos"

    ok = (None if not setter else (len(setter) == 1 and len(setter[0].args) >= 3 and [u(a) for a in setter[0].args[:2]] == ["call", "components[pos]"] and by_pos(setter[0].args[2])))
    posd = util.single_def(wr.node, "pos")
    ok = ok and posd is not None and u(posd) == "record.start"
    ctx.ob(wr.qual, "component-looked-up-by-0-based-start", ok, wr.loc(), "the component written for a record is components[record.start] (0-based), so PS = leftmost position + 1 = its POS" if ok else "setter arguments / pos definition changed")
    vr = ctx.func("whatshap.vcf.VcfReader._process_single_chromosome")
    ok = any(isinstance(n, ast.Assign) and isinstance(n.targets[0], ast.Tuple) and u(n.targets[0].elts[0]) == "pos" and isinstance(n.value, ast.Tuple) and u(n.value.elts[0]) == "record.start" for n in walk_function(vr.node))
    ctx.ob(vr.qual, "variant-positions-are-record-start", ok, vr.loc(), "variant positions come from record.start (0-based), the same coordinate the writer uses" if ok else "variant positions are not record.start")


def r6(ctx):
    """A phase set in the output must come from this run's components: old phase of target calls is removed
    from every record, including the ones the writer skips (shared with C09.R2)."""
    from rules import c09

    c09.r2(ctx)


RULES = [
    ("C03.R1", "min-root: smaller value stays representative; compression to root", r1),
    ("C03.R2", "find_components merges all positions of a read through the first", r2),
    ("C03.R3", "solver, components and read list use one read set", r3),
    ("C03.R4", "master block only for families with genetic haplotyping", r4),
    ("C03.R5", "phase set names are 0-based start + 1", r5),
    ("C03.R6", "no phase set survives from the input (old phase removed everywhere)", r6),
]
# instance floors: about 60% of the instances confirmed by hand on the reference tree -- a rule that suddenly matches far fewer
# sites fails the run (exit 2); a clean-up that merges two sites into one does not
FLOORS = {"C03.R1": 4, "C03.R2": 6, "C03.R3": 3, "C03.R4": 4, "C03.R5": 3, "C03.R6": 4}
