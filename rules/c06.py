"""C06 -- allele detection never assigns the wrong allele (structural clauses)."""
import ast

from sa.model import walk_function, AnalysisError
from sa.norm import u, atoms, guard_atoms, linear, canon_bool
from sa import util

PROPERTY = "C06"
NEEDS_PYX = True
VP = "whatshap._variants"
RR = "whatshap.variants.ReadSetReader"

EXPLANATION = (
    "Decides: R1 CIGAR consumption tables -- for each of the three CIGAR walkers (_iterate_cigar, _detect_alleles, cigar_prefix_length) the checker symbolically executes the per-operator dispatch for "
    "operator codes 0..8 and extracts how far ref_pos / query_pos advance (in units of the operator length); the result must equal the SAM table (M/=/X both, I query, D/N reference, S query, H/P none) "
    "up to the frozen, reasoned exceptions of cigar_prefix_length; R2 exhaustiveness -- an unknown operator code reaches raise/assert in every walker; R3 overlap guards -- every yield of a variant in an M/D region "
    "is dominated by v_position < ref_pos + length and the assertion v_position >= ref_pos, in an insertion by v_position == ref_pos, never in N, and the yielded split point / query offset have the stated linear form; "
    "R4 same flanks for all alleles -- reference window, left/right pads, every ALT and the query window are cut with the same two cigar_prefix_length results, the right one asked for len(REF) + overhang; the two "
    "CIGAR halves conserve the split operator's length; R5 no guessing -- realign returns an allele index only from a non-empty candidate list under `single candidate or best < second` (strict), otherwise (None, None); "
    "symbolic ALTs return before any window is cut; detect_alleles_by_alignment yields only valid allele indices; R6 -- in the no-reference match/insertion handlers the allele sequence and the query are indexed by the same progress term (matched + inserted)."
)
EXPLANATION += (
    " " + "R8: the per-read cursor into the sorted variant list (both the reference and the no-reference branch of _alignments_to_reads) only passes entries whose position is strictly smaller than reference_start, and the cursor is what the branch's detector starts from."
)
EXPLANATION += (
    " " + 'R11: in the reference-free walker an operation is matched against the variants that start in the reference it consumes -- [ref_pos, ref_pos + length) for M/=/X/D and only the insertion point for I (read per operator from the definitions of the window end that reach the queueing loop).'
)
EXPLANATION += (
    " " + 'R12: cigar_prefix_length takes the part of an operation beyond the requested reference length back from the query count exactly on the returning paths that added to the query counter (M/=/X), not for a deletion.'
)
NOT_DECIDED = "That the edit distances favour the right allele (C19 / value level) and the allele-progress arithmetic of _detect_alleles_match/insertion/deletion."
ASSUMPTIONS = ["pysam cigartuples use the codes MIDNSHP=X -> 0..8"]

SAM = {0: (1, 1), 1: (0, 1), 2: (1, 0), 3: (1, 0), 4: (0, 1), 5: (0, 0), 6: (0, 0), 7: (1, 1), 8: (1, 1)}
OPNAME = "MIDNSHP=X"


def _eval_op_test(test, opvar, k, consts=None):
    """Evaluate a test that only depends on the operator variable (and on locals whose value is a known constant for this
    operator, e.g. flags taken from a per-operator table); None if it depends on more."""
    consts = consts or {}
    names = {n.id for n in ast.walk(test) if isinstance(n, ast.Name)}
    if names - {opvar} - set(consts):
        return None
    try:
        code = compile(ast.Expression(body=test), "<op>", "eval")
        env = dict(consts)
        env[opvar] = k
        return bool(eval(code, {"__builtins__": {}}, env))
    except Exception:
        return None


class Walk:
    """Symbolic execution of one loop iteration for operator code k."""

    def __init__(self, opvar, k, tracked):
        self.opvar = opvar
        self.k = k
        self.state = {v: {v + "0": 1} for v in tracked}
        self.tracked = set(tracked)
        self.flags = set()
        self.unknown = False
        self.consts = {}  # locals with a known constant value for this operator
        self.tables = {}  # module-level {operator: tuple} literals, set by the caller

    def table_entry(self, e):
        """TABLE[op] / TABLE.get(op) for a module-level dict literal keyed by operator codes: the entry (an AST node), the
        string 'missing', or None if `e` is no such lookup."""
        key = None
        if isinstance(e, ast.Subscript) and isinstance(e.value, ast.Name) and e.value.id in self.tables and u(e.slice) == self.opvar:
            tab, key = self.tables[e.value.id], self.k
        elif isinstance(e, ast.Call) and isinstance(e.func, ast.Attribute) and e.func.attr == "get" and isinstance(e.func.value, ast.Name) and e.func.value.id in self.tables and len(e.args) == 1 and u(e.args[0]) == self.opvar:
            tab, key = self.tables[e.func.value.id], self.k
        if key is None:
            return None
        return tab.get(key, "missing")

    def bind_const(self, target, value_node):
        if isinstance(target, ast.Name):
            if isinstance(value_node, ast.Constant):
                self.consts[target.id] = value_node.value
            else:
                self.consts.pop(target.id, None)
                self.sym = getattr(self, "sym", {})
                self.sym[target.id] = value_node

    def lin(self, e):
        lf = linear(e)
        if lf is None:
            return None
        out = {}
        for term, c in lf.items():
            if term in self.state:
                for t2, c2 in self.state[term].items():
                    out[t2] = out.get(t2, 0) + c * c2
            else:
                out[term] = out.get(term, 0) + c
        return {t: c for t, c in out.items() if c}

    def run(self, stmts):
        """Returns 'next' (fell through), 'continue', 'return', 'raise'."""
        for s in stmts:
            r = self.stmt(s)
            if r != "next":
                return r
        return "next"

    def assigns_tracked(self, node):
        for n in ast.walk(node):
            if isinstance(n, (ast.Assign, ast.AugAssign)):
                tg = n.targets if isinstance(n, ast.Assign) else [n.target]
                for t in tg:
                    for x in ast.walk(t):
                        if isinstance(x, ast.Name) and x.id in self.tracked:
                            return True
        return False

    def stmt(self, s):
        if isinstance(s, ast.AnnAssign) and s.value is not None and isinstance(s.target, ast.Name):
            s = ast.copy_location(ast.Assign(targets=[s.target], value=s.value, type_comment=None), s)
        # per-operator table lookups: entry = TABLE.get(op) ; a, b, c = entry / TABLE[op]
        if isinstance(s, ast.Assign) and len(s.targets) == 1:
            ent = self.table_entry(s.value)
            src = s.value
            if ent is None and isinstance(src, ast.Name) and src.id in getattr(self, "entries", {}):
                ent = self.entries[src.id]
            if ent is not None:
                t0 = s.targets[0]
                if isinstance(t0, ast.Name):
                    self.entries = getattr(self, "entries", {})
                    self.entries[t0.id] = ent
                    self.consts[t0.id] = None if ent == "missing" else True  # truthiness / `is None` tests
                    if ent != "missing":
                        self.consts[t0.id] = ("entry",)
                    return "next"
                if isinstance(t0, ast.Tuple) and ent != "missing" and isinstance(ent, ast.Tuple) and len(ent.elts) == len(t0.elts):
                    for t_, v_ in zip(t0.elts, ent.elts):
                        self.bind_const(t_, v_)
                    return "next"
                if ent == "missing" and isinstance(s.value, ast.Subscript):
                    self.flags.add("reject")
                    return "raise"
        if isinstance(s, ast.If):
            test = s.test
            if self.tables:
                me = self

                class _T(ast.NodeTransformer):
                    def generic_visit(self, node):
                        ent = me.table_entry(node) if isinstance(node, (ast.Subscript, ast.Call)) else None
                        if ent is not None:
                            return ast.copy_location(ast.Constant(value=None if ent == "missing" else ("entry",)), node)
                        return super().generic_visit(node)

                import copy as _copy

                test = _T().visit(_copy.deepcopy(s.test))
                ast.fix_missing_locations(test)
            v = _eval_op_test(test, self.opvar, self.k, self.consts)
            if v is True:
                return self.run(s.body)
            if v is False:
                return self.run(s.orelse)
            # data dependent branch: must not move the tracked positions differently
            if self.assigns_tracked(s):
                self.unknown = True
            self.scan_flags(s)
            return "next"
        if isinstance(s, (ast.While, ast.For)):
            if self.assigns_tracked(s):
                self.unknown = True
            self.scan_flags(s)
            return "next"
        if isinstance(s, ast.Assign) and len(s.targets) == 1 and isinstance(s.targets[0], ast.Name) and s.targets[0].id in self.tracked:
            lf = self.lin(s.value)
            if lf is None:
                self.unknown = True
            else:
                self.state[s.targets[0].id] = lf
            return "next"
        if isinstance(s, ast.Assign) and len(s.targets) == 1 and isinstance(s.targets[0], ast.Name) and s.targets[0].id not in self.tracked and s.targets[0].id != self.opvar:
            # an auxiliary local (`ref_end = ref_pos + length`): remembered when it is linear in what is known
            lf = self.lin(s.value)
            if lf is not None and not any(isinstance(x, ast.Call) for x in ast.walk(s.value)):
                self.state[s.targets[0].id] = lf
            else:
                self.state.pop(s.targets[0].id, None)
            self.scan_flags(s)
            return "next"
        if isinstance(s, ast.Assign) and len(s.targets) == 1 and isinstance(s.targets[0], ast.Tuple) and isinstance(s.value, ast.Tuple):
            for t, v in zip(s.targets[0].elts, s.value.elts):
                if isinstance(t, ast.Name) and t.id in self.tracked:
                    lf = self.lin(v)
                    if lf is None:
                        self.unknown = True
                    else:
                        self.state[t.id] = lf
            return "next"
        if isinstance(s, ast.AugAssign) and isinstance(s.target, ast.Name) and s.target.id in self.tracked:
            lf = self.lin(s.value)
            if lf is None or not isinstance(s.op, (ast.Add, ast.Sub)):
                self.unknown = True
            else:
                sign = 1 if isinstance(s.op, ast.Add) else -1
                cur = dict(self.state[s.target.id])
                for t, c in lf.items():
                    cur[t] = cur.get(t, 0) + sign * c
                self.state[s.target.id] = {t: c for t, c in cur.items() if c}
            return "next"
        if isinstance(s, ast.Continue):
            return "continue"
        if isinstance(s, ast.Return):
            self.flags.add("return")
            return "return"
        if isinstance(s, ast.Raise):
            self.flags.add("reject")
            return "raise"
        if isinstance(s, ast.Assert) and isinstance(s.test, ast.Constant) and not s.test.value:
            self.flags.add("reject")
            return "raise"
        self.scan_flags(s)
        return "next"

    def scan_flags(self, s):
        for n in ast.walk(s):
            if isinstance(n, (ast.Yield, ast.YieldFrom)):
                self.flags.add("yield")
            if isinstance(n, ast.Return):
                self.flags.add("may-return")


def dispatch_table(loop, opvar, lenvar, refv, qv, extra=(), tables=None):
    table = {}
    for k in range(0, 10):
        w = Walk(opvar, k, [refv, qv] + list(extra))
        w.tables = tables or {}
        w.run(loop.body)
        dr = dict(w.state[refv])
        dq = dict(w.state[qv])
        dr[refv + "0"] = dr.get(refv + "0", 0) - 1
        dq[qv + "0"] = dq.get(qv + "0", 0) - 1
        dr = {t: c for t, c in dr.items() if c}
        dq = {t: c for t, c in dq.items() if c}

        def units(d):
            if not d:
                return 0
            if d == {lenvar: 1}:
                return 1
            return None

        table[k] = (units(dr), units(dq), frozenset(w.flags), w.unknown, dr, dq)
    return table


def _walker_loop(fi, pred):
    loops = [n for n in walk_function(fi.node) if isinstance(n, ast.For) and pred(n)]
    if len(loops) != 1:
        raise AnalysisError("CIGAR loop of %s not found" % fi.qual)
    return loops[0]


WALKERS = None


def walkers(ctx):
    it = ctx.func(VP + "._iterate_cigar")
    da = ctx.func(VP + "._detect_alleles")
    pl = ctx.func(RR + ".cigar_prefix_length")
    l1 = _walker_loop(it, lambda n: "cigartuples" in u(n.iter))
    l2 = _walker_loop(da, lambda n: u(n.iter) == "bam_read.cigartuples")
    l3 = _walker_loop(pl, lambda n: u(n.iter) == "cigar")
    return [
        ("_iterate_cigar", it, l1, "cigar_op", "length", "ref_pos", "query_pos", ()),
        ("_detect_alleles", da, l2, "cigar_op", "length", "ref_pos", "query_pos", ("ref_end", "query_end")),
        ("cigar_prefix_length", pl, l3, "op", "length", "ref_pos", "query_pos", ()),
    ]


# frozen, reasoned exceptions of cigar_prefix_length (window extraction):
PREFIX_EXCEPTIONS = {
    4: ((0, 0), "soft clips are terminal: the realignment window must not extend into clipped bases, so S is not counted as query progress"),
    5: ((0, 0), "hard clip consumes nothing (same as SAM)"),
    3: ("stop", "a reference skip ends the window: no position beyond an N is reported"),
    6: ("reject", "padding is outside what realignment supports; the walker asserts (P is outside C06's quantifier)"),
}


def _op_tables(fi):
    """module-level dict literals keyed by operator codes: {name: {code: value node}}"""
    out = {}
    for st in fi.module.tree.body:
        tgt = st.targets[0] if isinstance(st, ast.Assign) and len(st.targets) == 1 else (st.target if isinstance(st, ast.AnnAssign) and st.value is not None else None)
        if isinstance(tgt, ast.Name) and isinstance(st.value, ast.Dict) and st.value.keys and all(isinstance(k_, ast.Constant) and isinstance(k_.value, int) for k_ in st.value.keys):
            out[tgt.id] = {k_.value: v_ for k_, v_ in zip(st.value.keys, st.value.values)}
    return out


def r1(ctx):
    for name, fi, loop, opv, lenv, refv, qv, extra in walkers(ctx):
        table = dispatch_table(loop, opv, lenv, refv, qv, extra, tables=_op_tables(fi))
        for k in range(9):
            dr, dq, flags, unknown, rr, qq = table[k]
            want = SAM[k]
            ok = (dr, dq) == want and not unknown
            why = "advances (ref, query) by %s x length as in the SAM specification" % (want,)
            if name == "cigar_prefix_length" and k in PREFIX_EXCEPTIONS:
                exp, reason = PREFIX_EXCEPTIONS[k]
                if exp == "stop":
                    ok = "return" in flags and not unknown
                    why = "stops at this operator: " + reason
                elif exp == "reject":
                    ok = "reject" in flags
                    why = "rejects this operator: " + reason
                else:
                    ok = (dr, dq) == exp and not unknown
                    why = "advances by %s: %s" % (exp, reason)
            if not ok and unknown:
                ok = None  # the advance is computed from data this interpreter does not evaluate (e.g. flags looked up per operator)
            ctx.ob(fi.qual, "consumption:%s(%d)" % (OPNAME[k], k), ok, fi.loc(loop), "%s (%d) %s" % (OPNAME[k], k, why) if ok else "operator %s (%d) advances ref_pos by %s and query_pos by %s%s; expected %s" % (OPNAME[k], k, rr or 0, qq or 0, " (data-dependent update)" if unknown else "", want))
        # N never yields in _iterate_cigar
        if name == "_iterate_cigar":
            ok = "yield" not in table[3][2]
            ctx.ob(fi.qual, "no-allele-inside-reference-skip", ok, fi.loc(loop), "variants inside an N region are skipped without yield" if ok else "a variant inside a reference skip is yielded")


def _op_tests(node, opvar):
    """Sub-expressions that are boolean tests depending only on the operator variable."""
    out = []
    for n in ast.walk(node):
        if isinstance(n, (ast.Compare, ast.BoolOp)):
            names = {x.id for x in ast.walk(n) if isinstance(x, ast.Name)}
            if names == {opvar}:
                par = getattr(n, "parent", None)
                if isinstance(par, ast.BoolOp) and {x.id for x in ast.walk(par) if isinstance(x, ast.Name)} == {opvar}:
                    continue  # judged as part of the enclosing operator-only test
                out.append(n)
    return out


MATCH_CLASS = (0, 7, 8)  # M, =, X consume both sequences and are interchangeable for allele detection


def r2(ctx):
    # operator classes: a test that separates M from = / X treats equivalent alignments differently
    for name, fi, loop, opv, lenv, refv, qv, extra in walkers(ctx):
        bad = []
        n_tests = 0
        for t in _op_tests(loop, opv):
            vals = [_eval_op_test(t, opv, k) for k in MATCH_CLASS]
            if None in vals:
                continue
            n_tests += 1
            if len(set(vals)) != 1:
                bad.append(t)
        ctx.ob(fi.qual, "match-operators-treated-alike", not bad and n_tests >= 1, fi.loc(bad[0]) if bad else fi.loc(loop), "every test on the CIGAR operator gives the same answer for M, = and X (%d tests)" % n_tests if not bad else "the test `%s` distinguishes M from =/X: the same alignment written with =/X operators is handled differently" % u(bad[0]))
    for name, fi, loop, opv, lenv, refv, qv, extra in walkers(ctx):
        table = dispatch_table(loop, opv, lenv, refv, qv, extra, tables=_op_tables(fi))
        flags = table[9][2]
        ok = "reject" in flags
        if not ok and any(isinstance(a_, (ast.Assert, ast.Raise)) and opv in {x_.id for x_ in ast.walk(a_ if isinstance(a_, ast.Assert) else (getattr(a_, "parent", a_))) if isinstance(x_, ast.Name)} for a_ in ast.walk(loop)):
            ok = None  # an assertion / raise inside the loop tests the operator in a way this interpreter does not evaluate (e.g. membership in a table)
        ctx.ob(fi.qual, "unknown-operator-rejected", ok, fi.loc(loop), "an operator code outside 0..8 reaches raise / assert False" if ok else "an unknown operator code falls through the dispatch silently")
    it = ctx.func(VP + "._iterate_cigar")
    ctx.note("P (6) is accepted as non-consuming by _iterate_cigar and _detect_alleles but rejected by cigar_prefix_length with an assertion; P is outside C06's quantifier (S, H, I, D, N, =, X)")


def _ops_of(ga, var="cigar_op"):
    """CIGAR operator codes 0..8 that satisfy every guard atom which talks about the operator only."""
    ops = []
    for op in range(0, 9):
        ok = True
        for t, pol in ga:
            try:
                tree = ast.parse(t, mode="eval")
            except SyntaxError:
                continue
            names = {n.id for n in ast.walk(tree) if isinstance(n, ast.Name)}
            if names != {var}:
                continue
            if not all(isinstance(n, (ast.Expression, ast.Compare, ast.BoolOp, ast.UnaryOp, ast.Constant, ast.Tuple, ast.List, ast.Set, ast.Name, ast.cmpop, ast.boolop, ast.unaryop, ast.Load)) for n in ast.walk(tree)):
                continue
            if bool(eval(compile(tree, "<op>", "eval"), {"__builtins__": {}}, {var: op})) != pol:
                ok = False
                break
        if ok:
            ops.append(op)
    return ops


def r3(ctx):
    it = ctx.func(VP + "._iterate_cigar")
    cfg = ctx.cfg(it)
    ys = [n for n in walk_function(it.node) if isinstance(n, ast.Expr) and isinstance(n.value, ast.Yield)]
    ctx.require(len(ys) >= 3, "expected at least three yields in _iterate_cigar")
    seen_regions = set()
    for y in ys:
        ga = guard_atoms(cfg, cfg.node_of(y)) | util.expanded_guard_atoms(cfg, it.node, cfg.node_of(y), keep=("v_position", "ref_pos", "length", "j", "n", "query_pos", "cigar_op", "i"))
        tup = [u(e) for e in y.value.value.elts]
        lfs = [linear(e) for e in y.value.value.elts]
        ops = _ops_of(ga)
        # the region is decided by the operator codes that can reach the yield, not by the spelling of the test
        if ops and set(ops) <= {0, 7, 8}:
            region = "match"
            ok = ("v_position < ref_pos + length", True) in ga and ("v_position < ref_pos", False) in ga and ("j < n", True) in ga
            okt = tup[:2] == ["j", "i"] and lfs[2] == {"v_position": 1, "ref_pos": -1} and lfs[3] == {"query_pos": 1, "v_position": 1, "ref_pos": -1}
        elif ops == [1]:
            region = "insertion"
            ok = ("ref_pos == v_position", True) in ga and ("j < n", True) in ga
            okt = tup[:2] == ["j", "i"] and lfs[2] == {} and lfs[3] == {"query_pos": 1}
        elif ops == [2]:
            region = "deletion"
            ok = ("v_position < ref_pos + length", True) in ga and ("v_position < ref_pos", False) in ga and ("j < n", True) in ga
            okt = tup[:2] == ["j", "i"] and lfs[2] == {"v_position": 1, "ref_pos": -1} and lfs[3] == {"query_pos": 1}
        else:
            region = "ops=%s" % ops
            ok = okt = False
        seen_regions.add(region)
        ctx.ob(it.qual, "overlap-guard:%s" % region, ok, it.loc(y), "a variant is yielded in a %s region only if it lies inside it" % region if ok else "yield in %s region is not dominated by the overlap guards (%s)" % (region, sorted(t for t, p in ga if "v_position" in t)))
        ctx.ob(it.qual, "split-point-and-query-offset:%s" % region, okt, it.loc(y), "yield %s" % tup if okt else "yielded tuple %s does not have the expected split point / query offset for operators %s" % (tup, ops))
    okr = {"match", "insertion", "deletion"} <= seen_regions
    ctx.ob(it.qual, "all-three-regions-yield", okr, it.loc(), "match, insertion and deletion regions each have a yield" if okr else "regions with a yield: %s" % sorted(seen_regions))
    # v_position is the current variant's position wherever it is used
    defs = [v for s, v in util.assignments_to(it.node, "v_position") if isinstance(v, ast.AST)]
    ok = (None if not defs else (len(defs) >= 4 and all(u(v) == "variants[j].position" for v in defs)))
    ctx.ob(it.qual, "v_position-tracks-variant-j", ok, it.loc(), "v_position is always variants[j].position" if ok else "v_position is assigned something else")
    pre = [n for n in walk_function(it.node) if isinstance(n, ast.While) and atoms(n.test, True) == {("j < n", True), ("variants[j].position < ref_pos", True)}]
    ctx.ob(it.qual, "variants-left-of-read-skipped", len(pre) == 1, it.loc(), "variants before the read's start are skipped, never yielded" if pre else "the initial skip loop changed")


def _deref(fnode, e, depth=0):
    """Follow plain copies: a Name whose only definition is another expression stands for that expression."""
    while isinstance(e, ast.Name) and depth < 5:
        d = util.single_def(fnode, e.id)
        if d is None:
            break
        e = d
        depth += 1
    return e


def _slice_lin(sub):
    if not (isinstance(sub, ast.Subscript) and isinstance(sub.slice, ast.Slice)):
        return (None, None)
    sl = sub.slice
    return (linear(sl.lower) if sl.lower is not None else {}, linear(sl.upper) if sl.upper is not None else None)


def r4(ctx):
    fi = ctx.func(RR + ".realign")
    cfg = ctx.cfg(fi)
    li = util.single_def(fi.node, "left_cigar_iterator")
    ri = util.single_def(fi.node, "right_cigar_iterator")
    ok = li is not None and ri is not None and u(li) == "ReadSetReader.split_cigar_left(cigartuples, i, consumed)" and u(ri) == "ReadSetReader.split_cigar_right(cigartuples, i, consumed)"
    ctx.ob(fi.qual, "cigar-split-at-the-yielded-point", ok, fi.loc(), "left/right CIGAR halves are split at (i, consumed)" if ok else "the CIGAR halves are not split_cigar_left/right(cigartuples, i, consumed)")
    # the two prefix calls of each branch
    calls = [n for n in walk_function(fi.node) if isinstance(n, ast.Assign) and isinstance(n.value, ast.Call) and u(n.value.func) == "ReadSetReader.cigar_prefix_length" and isinstance(n.targets[0], ast.Tuple)]
    ctx.require(len(calls) in (2, 4), "expected two cigar_prefix_length calls per alignment mode (or two shared ones) in realign")

    def specialise(e, mode):
        """Copy of e with `A if use_kmerald else B` (either polarity) resolved for the given mode."""
        from sa.pathfx import _clone

        class T(ast.NodeTransformer):
            def visit_IfExp(self, node):
                self.generic_visit(node)
                at = atoms(node.test, True)
                if at == {("use_kmerald", True)}:
                    return node.body if mode else node.orelse
                if at == {("use_kmerald", False)}:
                    return node.orelse if mode else node.body
                return node

        return T().visit(_clone(e))

    seen_modes = set()
    for n in calls:
        tg = [u(t) for t in n.targets[0].elts]
        side = "left" if tg[0].startswith("left") else "right"
        ga = guard_atoms(cfg, cfg.node_of(n))
        modes = [True] if ("use_kmerald", True) in ga else ([False] if ("use_kmerald", False) in ga else [True, False])
        arg = util.resolve_locals(fi.node, n.value.args[1]) if len(n.value.args) > 1 else None
        for mode in modes:
            seen_modes.add((side, mode))
            pad = "int(kmerald_window)" if mode else "overhang"
            lf = linear(specialise(arg, mode)) if arg is not None else None
            if side == "left":
                ok = tg == ["left_ref_bases", "left_query_bases"] and u(n.value.args[0]) == "left_cigar_iterator" and lf == {pad: 1}
                msg = "left flank asks for %s reference bases" % pad
            else:
                ok = tg == ["right_ref_bases", "right_query_bases"] and u(n.value.args[0]) == "right_cigar_iterator" and lf == {pad: 1, "len(variant.reference_allele)": 1}
                msg = "right flank asks for len(REF) + %s reference bases" % pad
            ctx.ob(fi.qual, "prefix-call:%s:%s" % ("kmerald" if mode else "edit", side), ok, fi.loc(n), msg if ok else "%s prefix call is %s" % (side, u(n)))
    okm = seen_modes == {("left", True), ("left", False), ("right", True), ("right", False)}
    if not okm:
        ctx.ob(fi.qual, "prefix-call:coverage", False, fi.loc(), "flank lengths are not computed for both sides in both alignment modes: %s" % sorted(seen_modes))
    # edit-distance branch windows
    qd = [(s, _deref(fi.node, v)) for s, v in util.assignments_to(fi.node, "query") if isinstance(v, ast.AST)]
    qd = [(s, v) for s, v in qd if isinstance(v, ast.Subscript) and isinstance(v.slice, ast.Slice)]
    ok = (None if not qd else (len(qd) == 1 and u(qd[0][1].value) == "bam_read.query_sequence" and _slice_lin(qd[0][1]) == ({"query_pos": 1, "left_query_bases": -1}, {"query_pos": 1, "right_query_bases": 1})))
    ctx.ob(fi.qual, "query-window", ok, fi.loc(qd[0][0]) if qd else fi.loc(), "query window = query_sequence[query_pos - left_query_bases : query_pos + right_query_bases]" if ok else "query window is cut differently")
    posd = util.single_def(fi.node, "pos")
    okp = posd is not None and u(posd) == "variant.position"
    lp = util.single_def(fi.node, "left_pad")
    rp = util.single_def(fi.node, "right_pad")
    ok = okp and lp is not None and u(lp.value) == "reference" and _slice_lin(lp) == ({"pos": 1, "left_ref_bases": -1}, {"pos": 1})
    ctx.ob(fi.qual, "left-pad", ok, fi.loc(), "left_pad = reference[pos - left_ref_bases : pos]" if ok else "left_pad is %s" % (u(lp) if lp is not None else "?"))
    ok = okp and rp is not None and u(rp.value) == "reference" and _slice_lin(rp) == ({"pos": 1, "len(variant.reference_allele)": 1}, {"pos": 1, "right_ref_bases": 1})
    ctx.ob(fi.qual, "right-pad", ok, fi.loc(), "right_pad = reference[pos + len(REF) : pos + right_ref_bases]" if ok else "right_pad is %s" % (u(rp) if rp is not None else "?"))
    # padded_alleles = [padded REF] followed by one padded allele per ALT, in ALT order (index = allele number) --
    # however the list is put together (display + append loop, display + comprehension, ...)
    shape = util.list_shape(fi.node, "padded_alleles")
    if shape is None:
        ctx.ob(fi.qual, "reference-allele-window", None, fi.loc(), "cannot tell how padded_alleles is built")
    else:
        first = util.resolve_locals(fi.node, shape[0][1], keep=("pos",)) if shape and shape[0][0] == "one" else None
        ok = first is not None and isinstance(first, ast.Subscript) and isinstance(first.slice, ast.Slice) and u(first.value) == "reference" and _slice_lin(first) == ({"pos": 1, "left_ref_bases": -1}, {"pos": 1, "right_ref_bases": 1})
        ctx.ob(fi.qual, "reference-allele-window", ok, fi.loc(), "padded REF = reference[pos - left_ref_bases : pos + right_ref_bases] (same flanks as the pads) is allele 0" if ok else "the padded reference allele (first entry of padded_alleles) is %s, not the reference cut with the bounds of the pads" % (u(first)[:80] if first is not None else "not a single expression"))
        rest = shape[1:]
        ok = (None if not rest else (len(rest) == 1 and rest[0][0] == "each" and rest[0][3] == "variant.get_alt_allele_list()" and u(util.resolve_locals(fi.node, rest[0][1], keep=("left_pad", "right_pad"))) == "left_pad + %s + right_pad" % rest[0][2]))
        ctx.ob(fi.qual, "every-alt-gets-the-same-pads", ok, fi.loc(), "every ALT is left_pad + alt + right_pad, in ALT order (index = allele number)" if ok else "ALT alleles are not padded as left_pad + alt + right_pad in ALT order: %s" % [(k[0], u(k[1])[:50]) for k in rest])
    # kmerald branch: ref_temp / alt_temp / query_temp
    rt = _deref(fi.node, util.single_def(fi.node, "ref_temp"))
    qt = _deref(fi.node, util.single_def(fi.node, "query_temp"))
    ok = rt is not None and _slice_lin(rt) == ({"variant.position": 1, "left_ref_bases": -1}, {"variant.position": 1, "right_ref_bases": 1}) and qt is not None and _slice_lin(qt) == ({"query_pos": 1, "left_query_bases": -1}, {"query_pos": 1, "right_query_bases": 1})
    at = util.single_def(fi.node, "alt_temp")
    oka = at is not None and isinstance(at, ast.BinOp)
    if oka:
        parts = []
        e = at
        while isinstance(e, ast.BinOp) and isinstance(e.op, ast.Add):
            parts.insert(0, e.right)
            e = e.left
        parts.insert(0, e)
        oka = (None if not parts else (len(parts) == 3 and isinstance(parts[0], ast.Subscript) and _slice_lin(parts[0]) == ({"variant.position": 1, "left_ref_bases": -1}, {"variant.position": 1}) and u(parts[1]) == "variant.alternative_allele" and isinstance(parts[2], ast.Subscript) and _slice_lin(parts[2]) == ({"variant.position": 1, "len(variant.reference_allele)": 1}, {"variant.position": 1, "right_ref_bases": 1})))
    ctx.ob(fi.qual, "kmerald-windows-share-flanks", ok and oka, fi.loc(), "kmerald: REF, ALT and query windows use the same flank lengths" if ok and oka else "kmerald windows are cut with inconsistent flanks")
    # split conservation
    sl = ctx.func(RR + ".split_cigar_left")
    sr = ctx.func(RR + ".split_cigar_right")
    def split_shape(f, side):
        """(yields of the split operator, how the untouched elements are yielded) in a form independent of loop spelling"""
        mids, rest = [], []
        for n in walk_function(f.node):
            if isinstance(n, ast.Expr) and isinstance(n.value, ast.Yield) and n.value.value is not None:
                v = util.expand_single_defs(f.node, n.value.value, keep=("cigar", "i", "consumed", "middle_op", "middle_length"))
                lp = n
                while lp is not None and not isinstance(lp, ast.For):
                    lp = getattr(lp, "parent", None)
                if lp is not None and isinstance(v, ast.Subscript) and u(v.value) == "cigar" and u(v.slice) == u(lp.target):
                    rest.append(u(lp.iter).replace(" ", ""))
                elif lp is not None and isinstance(v, ast.Name) and v.id == u(lp.target):
                    rest.append("each:" + u(lp.iter).replace(" ", ""))
                else:
                    mids.append(u(v))
            elif isinstance(n, ast.Expr) and isinstance(n.value, ast.YieldFrom):
                rest.append("each:" + u(n.value.value).replace(" ", ""))
        return mids, rest

    ml, rl_ = split_shape(sl, "left")
    mr, rr_ = split_shape(sr, "right")
    left_rest = ("range(i-1,-1,-1)", "each:reversed(cigar[:i])", "each:cigar[i-1::-1]", "each:cigar[:i][::-1]")
    right_rest = ("range(i+1,len(cigar))", "each:cigar[i+1:]", "each:islice(cigar,i+1,None)")
    ok = None
    if ml and mr and rl_ and rr_:
        ok = ml == ["(middle_op, consumed)"] and mr == ["(middle_op, middle_length - consumed)"] and len(rl_) == 1 and len(rr_) == 1
        if ok and not (rl_[0] in left_rest and rr_[0] in right_rest):
            ok = None if (rl_[0].startswith("each:") or rr_[0].startswith("each:")) and not (rl_[0] in left_rest or rr_[0] in right_rest) else False
        # a left rest that is not reversed, or a right rest that starts at i, is a definite error
        if rl_ and rl_[0] in ("each:cigar[:i]", "range(0,i)", "range(i)") or rr_ and rr_[0] in ("each:cigar[i:]", "range(i,len(cigar))"):
            ok = False
    ctx.ob(sl.qual, "split-conserves-the-operator", ok, sl.loc(), "the split operator contributes `consumed` to the left and `length - consumed` to the right; all other operators go to exactly one side" if ok else "split_cigar_left/right no longer partition the CIGAR at (i, consumed)")
    # caller passes the yielded tuple through unchanged
    da = ctx.func(RR + ".detect_alleles_by_alignment")
    loops = [n for n in walk_function(da.node) if isinstance(n, ast.For) and u(n.iter).startswith("_iterate_cigar(")]
    ok = (None if not loops else (len(loops) == 1 and [u(t) for t in loops[0].target.elts] == ["index", "i", "consumed", "query_pos"]))
    rc = [c for c in ctx.prog.calls_in(da.node) if u(c.func) == "ReadSetReader.realign"]
    params = util.params_of(fi.node)
    if ok and rc:
        amap = dict(zip(params, [u(a) for a in rc[0].args]))
        ok = amap.get("variant") == "variants[index]" and amap.get("i") == "i" and amap.get("consumed") == "consumed" and amap.get("query_pos") == "query_pos" and amap.get("cigartuples") == "cigartuples" and amap.get("bam_read") == "bam_read" and amap.get("reference") == "reference"
    ctx.ob(da.qual, "walker-output-feeds-realign", ok and bool(rc), da.loc(), "(index, i, consumed, query_pos) from _iterate_cigar is passed to realign for variants[index]" if ok and rc else "the walker's output is not passed to realign as (variant[index], i, consumed, query_pos)")


def r5(ctx):
    fi = ctx.func(RR + ".realign")
    cfg = ctx.cfg(fi)
    rets = [n for n in walk_function(fi.node) if isinstance(n, ast.Return)]
    idx_rets = [r for r in rets if isinstance(r.value, ast.Tuple) and not (isinstance(r.value.elts[0], ast.Constant) and r.value.elts[0].value is None)]
    n_edit = 0
    for r in idx_rets:
        ga = util.resolved_guard_atoms(cfg, fi.node, cfg.node_of(r))
        first = u(util.resolve_locals(fi.node, r.value.elts[0]))
        if first == "distances[0][0]":
            n_edit += 1
            single = ("1 == len(distances)", True) in ga
            strict = ("distances[0][1] < distances[1][1]", True) in ga or any(p and "distances[0][1] < distances[1][1]" in t and "1 == len(distances)" in t and " or " in t for t, p in ga)
            ok = single or strict
            ctx.ob(fi.qual, "index-only-if-unique-best", ok, fi.loc(r), "an allele index is returned only under `single candidate or best distance strictly smaller than the second`" if ok else "the allele index is returned without the strict `best < second` test (ties are guessed)")
        elif first in ("0", "1"):
            want = ("distance_ref < distance_alt", True) if first == "0" else ("distance_alt < distance_ref", True)
            ok = want in ga
            ctx.ob(fi.qual, "kmerald-index:%s" % first, ok, fi.loc(r), "kmerald returns %s only when its distance is strictly smaller" % ("REF" if first == "0" else "ALT") if ok else "kmerald return %s is not under the strict comparison" % first)
        else:
            ctx.ob(fi.qual, "index-return:%s" % first, False, fi.loc(r), "unexpected allele-index return %s" % u(r.value))
    ctx.require(n_edit >= 1, "return of distances[0][0] not found")
    none_rets = [r for r in rets if r not in idx_rets]
    ok = (None if not none_rets else (len(none_rets) >= 3 and all(u(r.value) == "(None, None)" for r in none_rets)))
    ctx.ob(fi.qual, "otherwise-no-allele", ok, fi.loc(), "every other return is (None, None)" if ok else "a non-index return is not (None, None)")
    srt = [c for c in ctx.prog.calls_in(fi.node) if u(c.func) == "distances.sort"]
    ok = (None if not srt else (len(srt) >= 1 and all(not any(k.arg == "reverse" for k in c.keywords) and any(k.arg == "key" and isinstance(k.value, ast.Lambda) and u(k.value.body).endswith("[1]") for k in c.keywords) for c in srt)))
    ctx.ob(fi.qual, "distances-sorted-ascending", ok, fi.loc(), "candidates are sorted by ascending distance: index 0 is the best" if ok else "distances are not sorted ascending by distance")
    # totality: distances[0] needs a non-empty candidate list
    dd = [(s, v) for s, v in util.assignments_to(fi.node, "distances") if isinstance(v, ast.ListComp)]
    srcs = {u(v.generators[0].iter) for s, v in dd if len(v.generators) == 1 and not v.generators[0].ifs}
    for sub in [x for x in walk_function(fi.node) if isinstance(x, ast.Subscript) and u(x.value) == "distances" and isinstance(x.slice, ast.Constant)]:
        k = sub.slice.value
        ga = guard_atoms(cfg, cfg.node_containing(sub))
        from rules.common import _short_circuit_atoms

        sc = _short_circuit_atoms(sub)
        facts = ga | sc
        nonempty = any((src, True) in facts for src in srcs) or ("distances", True) in facts
        if k == 0:
            ok = nonempty and len(srcs) == 1
            msg = "distances[0] is only evaluated after the candidate list was found non-empty"
            bad = "distances[0] is evaluated without a guarantee that any allele is admissible (IndexError when the restricting genotype is missing)"
        else:
            ok = nonempty and (("1 < len(distances)", True) in facts or ("1 == len(distances)", False) in facts)
            msg = "distances[1] is only evaluated when a second candidate exists"
            bad = "distances[1] is evaluated without knowing that a second candidate exists"
        ctx.ob(fi.qual, "totality:distances[%d]@%d" % (k, sub.lineno - fi.node.lineno), ok, fi.loc(sub), msg if ok else bad)
    # symbolic ALTs leave before any window is cut
    sym = [n for n in walk_function(fi.node) if isinstance(n, ast.If) and "startswith('<')" in u(n.test) and any(isinstance(b, ast.Return) and u(b.value) == "(None, None)" for b in n.body)]
    ok = len(sym) == 1
    if ok:
        sn = cfg.node_of(sym[0])
        first_split = util.single_def(fi.node, "left_cigar_iterator")
        ok = first_split is not None and cfg.dominates(sn, cfg.node_of(util.stmt_of(first_split)))
    ctx.ob(fi.qual, "symbolic-alt-returns-first", ok, fi.loc(sym[0]) if sym else fi.loc(), "symbolic ALT alleles (<DEL>, ...) return (None, None) before any window is cut" if ok else "symbolic ALT alleles are not rejected up front")
    da = ctx.func(RR + ".detect_alleles_by_alignment")
    dcfg = ctx.cfg(da)
    ys = [n for n in walk_function(da.node) if isinstance(n, ast.Expr) and isinstance(n.value, ast.Yield)]
    ok = None
    if len(ys) == 1:
        ga_y = util.resolved_guard_atoms(dcfg, da.node, dcfg.node_of(ys[0]), keep=("allele", "variants", "index"))
        NA = "len(variants[index].get_alt_allele_list())"
        form_a = ("allele in range(%s + 1)" % NA, True) in ga_y or ("allele in range(1 + %s)" % NA, True) in ga_y
        nd_ = util.single_def(da.node, "num_alts")
        if not form_a and nd_ is not None and u(nd_) == NA:
            form_a = ("allele in range(num_alts + 1)", True) in ga_y or ("allele in range(1 + num_alts)", True) in ga_y
        lower = any(a_ in ga_y for a_ in (("0 <= allele", True), ("allele < 0", False), ("-1 < allele", True)))
        upper = any(a_ in ga_y for a_ in (("allele <= %s" % NA, True), ("%s < allele" % NA, False), ("allele < %s + 1" % NA, True), ("allele < 1 + %s" % NA, True)))
        not_none = ("None is allele", False) in ga_y
        ok = True if (form_a or (lower and upper and not_none)) else (False if not any("allele" in t_ for t_, _p in ga_y) else None)
    elif ys:
        ok = None
    ctx.ob(da.qual, "only-valid-allele-indices-yielded", ok, da.loc(ys[0]) if ys else da.loc(), "an allele is yielded only if it is one of 0..num_alts (None is dropped)" if ok else "the yield is not guarded by `allele in range(num_alts + 1)`")


def r6(ctx):
    """No-reference handlers: allele base k is compared with query base query_start + k (same progress term)."""
    for name in ("_detect_alleles_match", "_detect_alleles_insertion"):
        fi = ctx.func(VP + "." + name)
        # the comparison of a read base with an allele base, with all single-binding locals resolved
        # (qbase / vbase temporaries, an alias of bam_read.query_sequence, an `offset` local, ... or none of them)
        cands = []
        for c_ in [x for x in walk_function(fi.node) if isinstance(x, ast.Compare) and len(x.ops) == 1 and isinstance(x.ops[0], (ast.Eq, ast.NotEq))]:
            r_ = util.resolve_locals(fi.node, c_, keep=("allele_seq",))
            sides = [r_.left, r_.comparators[0]]
            q_ = [x for x in sides if isinstance(x, ast.Subscript) and u(x.value).startswith("bam_read.")]
            v_ = [x for x in sides if isinstance(x, ast.Subscript) and u(x.value) == "allele_seq"]
            if len(q_) == 1 and len(v_) == 1:
                cands.append((c_, q_[0], v_[0]))
        if len(cands) != 1:
            ctx.ob(fi.qual, "allele-and-query-advance-in-lock-step", None if not cands else False, fi.loc(), "found %d comparisons of a read base with an allele base (expected one)" % len(cands))
        else:
            c_, q_, v_ = cands[0]
            vi, qi = linear(v_.slice), linear(q_.slice)
            if qi is not None:
                # a running query index local (query_pos = query_start + a.matched + a.inserted, re-assigned per allele) is expanded
                for nm in [k for k in list(qi) if k.isidentifier() and k != "query_start"]:
                    defs = [v for s_, v in util.assignments_to(fi.node, nm) if isinstance(v, ast.AST)]
                    sub = linear(defs[-1]) if defs else None
                    if sub is not None:
                        coef = qi.pop(nm)
                        for k2, v2 in sub.items():
                            qi[k2] = qi.get(k2, 0) + coef * v2
                qi = {k: v for k, v in qi.items() if v}
            progress = {"a.matched": 1, "a.inserted": 1}
            ok = vi == progress and qi is not None and {k: v for k, v in qi.items() if k != "query_start"} == progress and qi.get("query_start") == 1
            detail = "allele index %s, query index %s" % (vi, qi)
            if u(q_.value) != "bam_read.query_sequence":
                # the query offsets kept by _detect_alleles count soft-clipped bases: only query_sequence is indexed that way
                ok = False
                detail = "the read base is taken from %s, but the query offsets are offsets into bam_read.query_sequence (soft clips included)" % u(q_.value)
            # the index is CURRENT where the bases are compared: a local that holds it is computed inside the innermost loop
            # around the comparison if that loop advances the progress it is computed from
            lp_ = c_
            while lp_ is not None and not isinstance(lp_, (ast.For, ast.While)):
                lp_ = getattr(lp_, "parent", None)
            # (Decided for the insertion handler only.  There the empty reference allele of an insertion needs no evidence and
            # stays resolved when the inserted allele fails on a stale index, so a read carrying the insertion is recorded with
            # the reference allele.  In the match handler a stale index can only make alleles FAIL -- every allele with match
            # bases is held to the same read base, alleles without match bases fail on an M operation anyway -- and `no
            # allele` is what C06 allows; the current _detect_alleles_match does compute its index once per call, see
            # DESIGN 11.7.)
            if ok and lp_ is not None and name == "_detect_alleles_insertion":
                inside = {id(x) for x in ast.walk(lp_)}
                moved = {u(x.target) for x in ast.walk(lp_) if isinstance(x, ast.AugAssign)} | {u(t_) for x in ast.walk(lp_) if isinstance(x, ast.Assign) for t_ in x.targets}
                for side in (q_.slice, v_.slice):
                    pass
                orig = [x for x in (c_.left, c_.comparators[0])]
                names_ = {n_.id for x in orig for n_ in ast.walk(x) if isinstance(n_, ast.Name)}
                todo_, seen_ = list(names_), set()
                while todo_:
                    nm = todo_.pop()
                    if nm in seen_:
                        continue
                    seen_.add(nm)
                    for s_, v in util.assignments_to(fi.node, nm):
                        if not isinstance(v, ast.AST):
                            continue
                        todo_.extend(n_.id for n_ in ast.walk(v) if isinstance(n_, ast.Name))
                        reads = {u(x) for x in ast.walk(v) if isinstance(x, (ast.Attribute, ast.Name))}
                        if id(s_) not in inside and (reads & moved):
                            ok = False
                            detail = "`%s = %s` is computed before the loop that advances %s and read inside it: every step compares the base the loop started at" % (nm, u(v)[:60], ", ".join(sorted(reads & moved)))
            ctx.ob(fi.qual, "allele-and-query-advance-in-lock-step", ok, fi.loc(c_), "allele base [matched + inserted] is compared with query base [query_start + matched + inserted]" if ok else "allele and query are not indexed by the same progress (%s): a read carrying the allele is compared against the wrong allele characters" % detail)
        sq = util.single_def(fi.node, "allele_seq")
        ok = sq is not None and u(sq) == "variant.get_allele(i)"
        ctx.ob(fi.qual, "allele-sequence-of-allele-i", ok, fi.loc(), "allele_seq is the sequence of the allele whose progress object is updated" if ok else "allele_seq is %s" % (u(sq) if sq is not None else "?"))


def r7(ctx):
    """Normalisation strips a leading/trailing base only if ALL alleles share it (and none would become shorter than empty)."""
    for cls in ("BiallelicVcfVariant", "MultiallelicVcfVariant"):
        fi = ctx.func("whatshap.vcf.%s.normalized" % cls)
        loops = [n for n in walk_function(fi.node) if isinstance(n, ast.While)]
        if len(loops) != 2:
            ctx.ob(fi.qual, "strip-only-if-shared-by-all", None, fi.loc(), "normalized() does not consist of a suffix loop and a prefix loop (%d while loops)" % len(loops))
            continue
        for i, w in enumerate(loops):
            conj = w.test.values if isinstance(w.test, ast.BoolOp) and isinstance(w.test.op, ast.And) else [w.test]
            txt = [u(c) for c in conj]
            body = " ".join(u(b) for b in w.body)
            which = "suffix" if i == 0 else "prefix"
            strip = "[:-1]" if i == 0 else "[1:]"
            ok = None
            if strip in body:
                # form A: strip one character per round
                end = "-1" if i == 0 else "0"
                if cls == "BiallelicVcfVariant":
                    ok = "ref[%s] == alt[%s]" % (end, end) in txt and any("len(ref)" in t for t in txt) and any("len(alt)" in t for t in txt)
                else:
                    ok = "all((ref[%s] == alt[%s] for alt in alts))" % (end, end) in txt and "ref" in txt and "all(alts)" in txt
                ok = ok and body.count(strip) >= 2
                if i == 1:
                    ok = ok and any(isinstance(b, ast.AugAssign) and u(b.target) == "pos" and u(b.value) == "1" for b in w.body)
            else:
                # form B: count how many characters are shared; the counter advances while EVERY allele agrees with REF at that offset
                incs = [b for b in w.body if isinstance(b, ast.AugAssign) and isinstance(b.op, ast.Add) and u(b.value) == "1" and isinstance(b.target, ast.Name)]
                if len(w.body) == 1 and len(incs) == 1:
                    cnt = incs[0].target.id
                    alls = [c for c in conj if isinstance(c, ast.Call) and u(c.func) == "all" and len(c.args) == 1 and isinstance(c.args[0], (ast.GeneratorExp, ast.ListComp)) and len(c.args[0].generators) == 1 and not c.args[0].generators[0].ifs]
                    anys = [c for c in ast.walk(w.test) if isinstance(c, ast.Call) and u(c.func) == "any"]
                    bound = [c for c in conj if isinstance(c, ast.Compare) and len(c.ops) == 1 and isinstance(c.ops[0], ast.Lt) and u(c.left) == cnt]
                    if len(alls) == 1 and not anys:
                        g = alls[0].args[0].generators[0]
                        e = alls[0].args[0].elt
                        av = u(g.target)
                        ok = isinstance(e, ast.Compare) and len(e.ops) == 1 and isinstance(e.ops[0], ast.Eq) and isinstance(e.left, ast.Subscript) and isinstance(e.comparators[0], ast.Subscript)
                        if ok:
                            l_, r_ = e.left, e.comparators[0]
                            a_side, r_side = (l_, r_) if u(l_.value) == av else (r_, l_)
                            ok = u(a_side.value) == av and u(r_side.value) == "ref" and u(a_side.slice) == u(r_side.slice) and cnt in u(a_side.slice) and len(bound) == 1
                            # the iterated collection is the ALT allele(s)
                            ok = ok and u(g.iter) in ("alts", "(alt,)", "[alt]", "self.alternative_alleles", "(self.alternative_allele,)")
                    elif anys:
                        ok = False
                    elif not alls and cls == "BiallelicVcfVariant":
                        # a single ALT: the quantifier degenerates to one comparison ref[k] == alt[k]
                        eqs = [c for c in conj if isinstance(c, ast.Compare) and len(c.ops) == 1 and isinstance(c.ops[0], ast.Eq) and isinstance(c.left, ast.Subscript) and isinstance(c.comparators[0], ast.Subscript)]
                        if len(eqs) == 1:
                            l_, r_ = eqs[0].left, eqs[0].comparators[0]
                            sides = {u(l_.value), u(r_.value)}
                            ok = sides in ({"ref", "alt"}, {"self.reference_allele", "self.alternative_allele"}) and u(l_.slice) == u(r_.slice) and cnt in u(l_.slice) and len(bound) == 1
            if ok is None:
                ctx.ob(fi.qual, "strip-%s-only-if-shared-by-all" % which, None, fi.loc(w), "normalisation loop `while %s` is neither a strip-one-character loop nor a shared-length counter" % u(w.test)[:100])
            else:
                ctx.ob(fi.qual, "strip-%s-only-if-shared-by-all" % which, ok, fi.loc(w), "a %s base is removed only while REF and every ALT share it and none is empty%s" % ("trailing" if i == 0 else "leading", "; the position moves with the prefix" if i == 1 else "") if ok else "normalisation loop `while %s` does not require that ALL alleles share the base: an allele can collapse onto REF" % u(w.test)[:160])


def r8(ctx):
    """The per-read cursor into the sorted variant list only passes variants that lie strictly left of the read."""
    fi = ctx.func("whatshap.variants.ReadSetReader._alignments_to_reads")
    cfg = ctx.cfg(fi)
    loops = [w for w in walk_function(fi.node) if isinstance(w, ast.While) and len(w.body) == 1 and isinstance(w.body[0], ast.AugAssign) and isinstance(w.body[0].op, ast.Add) and u(w.body[0].value) == "1"]
    ctx.require(len(loops) >= 1, "cursor-advancing loop not found in _alignments_to_reads")
    START = "alignment.bam_alignment.reference_start"
    good = {}
    for w in loops:
        cur = u(w.body[0].target)
        at = atoms(w.test, True)
        bound = [t for t, p in at if p and t.startswith("%s < len(" % cur)]
        seq = bound[0][len("%s < len(" % cur):-1] if bound else None
        strict = []
        for t, p in at:
            if not p or "[%s]" % cur not in t or " < " not in t:
                continue
            rhs = t.split(" < ", 1)[1]
            if rhs != START:
                d_ = util.single_def(fi.node, rhs) if rhs.isidentifier() else None
                if d_ is None or u(d_) != START:
                    continue
            strict.append(t)
        ok = bool(bound) and len(strict) == 1 and len(at) == 2 and isinstance(w.test, ast.BoolOp) and isinstance(w.test.op, ast.And)
        ctx.ob(fi.qual, "cursor-skips-only-variants-left-of-the-read:%s" % (seq or "?"), ok, fi.loc(w), "the cursor passes %s[%s] only while it is < reference_start: a variant on the first aligned base is still examined" % (seq, cur) if ok else "`while %s` can pass a variant the read covers (position >= reference_start): no allele is recorded for it" % u(w.test)[:120])
        good[cfg.node_of(w)] = (cur, seq)
    # every detector starts at a cursor that was advanced for this read
    dets = [c for c in ctx.prog.calls_in(fi.node) if u(c.func) in ("_detect_alleles", "self.detect_alleles_by_alignment")]
    ctx.require(len(dets) >= 2, "detector calls (with / without reference) not found in _alignments_to_reads")
    for det in dets:
        dn = cfg.node_containing(det)
        doms = [(h, cs) for h, cs in good.items() if cfg.dominates(h, dn)]
        # the innermost dominating cursor loop whose cursor is among the arguments
        handed = [(h, cs) for h, cs in doms if any(u(a) == cs[0] for a in det.args)]
        okd = len(handed) >= 1
        seqs = sorted({cs[1] or "?" for h, cs in handed}) or ["?"]
        ctx.ob(fi.qual, "cursor-handed-to-detector:%s:%s" % (u(det.func).split(".")[-1], seqs[0]), okd, fi.loc(det), "detection starts at the cursor that was advanced for this read" if okd else "the detector %s does not start at a cursor advanced for this read" % u(det.func))


def r9(ctx):
    """Reference-free detection: a variant is only queued with query offset `query_pos + var_pos - ref_pos` once the
    variants left of ref_pos have been passed -- after every operation that moves ref_pos without consuming variants
    (a reference skip) and at the start of the read."""
    fi = ctx.func("whatshap._variants._detect_alleles")
    cfg = ctx.cfg(fi)
    pos = "ref_pos"
    # offset sites: expressions `<variant position> - ref_pos`
    sites = []
    for n in walk_function(fi.node):
        if isinstance(n, ast.BinOp) and isinstance(n.op, ast.Sub) and u(n.right) == pos:
            sites.append(n)
    whiles = [w for w in walk_function(fi.node) if isinstance(w, ast.While)]
    def inside(n, w):
        return any(x is n for x in ast.walk(w))
    qloops = [w for w in whiles if any(inside(s_, w) for s_ in sites)]
    ctx.require(len(sites) >= 1 and len(qloops) == 1, "queueing loop with the offset `var_pos - ref_pos` not found in _detect_alleles")
    ql = qloops[0]
    vp = sorted({x.id for s_ in sites for x in ast.walk(s_.left) if isinstance(x, ast.Name)} - {"query_pos"})
    # skip loops: leave only through the loop test or through `<var position> >= ref_pos`, advance the cursor by one
    def is_skip(w):
        if w is not ql and len(w.body) == 1 and isinstance(w.body[0], ast.AugAssign) and u(w.body[0].value) == "1":
            # `while j < n and <position of variant j> < ref_pos: j += 1`
            at = atoms(w.test, True)
            rest = {a_ for a_ in at if not (a_[1] and a_[0].endswith(" < %s" % pos) and ".position" in a_[0])}
            if len(rest) == len(at) - 1 and rest == atoms(ql.test, True):
                return True
        if w is ql or not u(w.test) == u(ql.test):
            return False
        brk = [b for b in ast.walk(w) if isinstance(b, ast.Break)]
        if len(brk) != 1 or not isinstance(brk[0].parent, ast.If):
            return False
        at = sorted(atoms(brk[0].parent.test, True))
        if not (len(at) == 1 and any(at[0] in (("%s < %s" % (v_, pos), False), ("%s <= %s" % (pos, v_), True)) for v_ in vp)):
            return False
        other = [x for x in ast.walk(w) if isinstance(x, (ast.Return, ast.Continue))]
        return not other
    skips = [w for w in whiles if is_skip(w)]
    shead = {cfg.node_of(w) for w in skips}
    qhead = cfg.node_of(ql)
    # the skip loop may live in a helper: `j = helper(..., j, ..., ref_pos)` where the helper walks its cursor parameter
    # forward while the variant's position is < its position parameter and returns the cursor
    cursors = sorted({u(x.target) for x in ast.walk(ql) if isinstance(x, ast.AugAssign) and isinstance(x.target, ast.Name) and u(x.value) == "1"} & {x.id for x in ast.walk(ql.test) if isinstance(x, ast.Name)})
    unknown_skips = set()
    for st_ in walk_function(fi.node):
        if not (isinstance(st_, ast.Assign) and len(st_.targets) == 1 and isinstance(st_.targets[0], ast.Name) and st_.targets[0].id in cursors and isinstance(st_.value, ast.Call)):
            continue
        c_ = st_.value
        argt = [u(a_) for a_ in c_.args]
        if pos not in argt or st_.targets[0].id not in argt:
            continue
        tg, how = ctx.resolve(c_, fi)
        good = False
        if len(tg) == 1:
            g = tg[0]
            gp = util.params_of(g.node)
            if len(gp) >= len(argt):
                pc, pp = gp[argt.index(st_.targets[0].id)], gp[argt.index(pos)]
                gw = [w for w in walk_function(g.node) if isinstance(w, ast.While)]
                rets = [r_ for r_ in walk_function(g.node) if isinstance(r_, ast.Return)]
                if len(gw) == 1 and rets and all(r_.value is not None and u(r_.value) == pc for r_ in rets) and any(isinstance(x, ast.Name) and x.id == pc for x in ast.walk(gw[0].test)):
                    w = gw[0]
                    exits = [x for x in ast.walk(w) if isinstance(x, (ast.Break, ast.Return))]
                    incs = [x for x in ast.walk(w) if isinstance(x, ast.AugAssign) and u(x.target) == pc and u(x.value) == "1" and isinstance(x.op, ast.Add)]
                    stores_c = [x for x in ast.walk(g.node) if isinstance(x, ast.Name) and x.id == pc and isinstance(x.ctx, ast.Store)]
                    if len(exits) == 1 and isinstance(exits[0].parent, ast.If) and len(incs) == 1 and len(stores_c) == 1 and not [x for x in ast.walk(w) if isinstance(x, ast.Continue)]:
                        at = sorted(atoms(exits[0].parent.test, True))
                        if len(at) == 1 and ((at[0][1] is False and at[0][0].endswith(" < %s" % pp)) or (at[0][1] is True and at[0][0].startswith("%s <= " % pp))):
                            good = True
                    elif not exits and len(incs) == 1 and len(stores_c) == 1 and len(w.body) == 1:
                        at = atoms(w.test, True)
                        if any(p_ and t_.endswith(" < %s" % pp) and ".position" in t_ for t_, p_ in at):
                            good = True
        (shead if good else unknown_skips).add(cfg.node_of(st_))
    adv = [st_ for st_, _ in util.assignments_to(fi.node, pos) if isinstance(st_, ast.stmt)]
    ctx.require(len(adv) >= 2, "definitions of ref_pos not found")
    for st_ in adv:
        a = cfg.node_of(st_)
        if cfg.dominates(qhead, a) and a != qhead:
            # after the queueing loop of the same operation: that loop consumed every variant left of the new ref_pos
            # (the consumption tables are C06.R1's business)
            continue
        path = cfg.find_path(a, qhead, avoid_nodes=shead, start_after=True)
        ok = path is None
        if path is not None and any(cfg.kind(x) == "test" and x != qhead and isinstance(cfg.stmt(x), ast.While) and any(isinstance(y, ast.Name) and y.id in vp for y in ast.walk(cfg.stmt(x))) for x in path[1:]):
            ok = None  # an unrecognised loop over the cursor lies on the way
        if path is not None and any(x in unknown_skips for x in path):
            ok = None  # a helper call that advances the cursor, but not in a form this rule can read
        ctx.ob(fi.qual, "variants-left-of-ref_pos-passed-before-queueing:%s" % u(st_)[:40], ok, fi.loc(st_), "after `%s` the cursor passes every variant left of ref_pos before a variant is queued with offset var_pos - ref_pos" % u(st_) if ok else "after `%s` (ref_pos moves without looking at variants) the next operation queues pending variants with a negative offset var_pos - ref_pos: a read gets an allele for a variant inside a reference skip it does not overlap" % u(st_), cfg.describe_path(path) if path else None)


def r10(ctx):
    """Two small disciplines of the re-alignment path.  (a) Memo tables (`calculated_costs`, `splitted_strings`): an entry is stored
    under the key whose absence was just tested, and read back under that key -- a score cached under another allele's key makes
    the next read with the same window see a tie (or the other allele's score).  (b) Reads are grouped per file: the grouping key
    of `_group_reads` contains source_id, name and sample_id, so alignments of different files are never merged into one read."""
    fi = ctx.func(RR + ".realign")
    cfg = ctx.cfg(fi)
    n = 0
    for st in util.store_sites(fi.node):
        if st.kind != "subscript" or not isinstance(st.target.value, ast.Name) or st.target.value.id not in ("calculated_costs", "splitted_strings"):
            continue
        cache, key = st.target.value.id, u(st.target.slice)
        ga = guard_atoms(cfg, cfg.node_of(st.stmt))
        tested = [t_[: -len(" in %s" % cache)] for t_, p_ in ga if (not p_) and t_.endswith(" in %s" % cache)]
        n += 1
        if not tested:
            ctx.ob(fi.qual, "memo-stored-under-the-tested-key:%s[%s]" % (cache, key[:30]), None, fi.loc(st.stmt), "no `key in %s` test dominates this store" % cache)
            continue
        ok = key in tested
        # the hit branch reads the same key into the same variable
        if ok and isinstance(st.value, ast.Name):
            hits = [x for x in walk_function(fi.node) if isinstance(x, ast.Assign) and u(x.targets[0]) == st.value.id and isinstance(x.value, ast.Subscript) and u(x.value.value) == cache]
            ok = any(u(h_.value.slice) == key for h_ in hits) if hits else ok
        ctx.ob(fi.qual, "memo-stored-under-the-tested-key:%s[%s]" % (cache, key[:30]), ok, fi.loc(st.stmt), "%s[%s] is filled right after `%s not in %s` and read back under the same key" % (cache, key, key, cache) if ok else "`%s` stores under %s although the key tested (and read on a hit) is %s: later reads with the same window get another entry's value" % (st.text()[:70], key, tested))
    ctx.require(n >= 2, "memo stores of realign() not found")
    gr = ctx.func(RR + "._group_reads")
    keys = [x.slice for x in walk_function(gr.node) if isinstance(x, ast.Subscript) and isinstance(x.slice, ast.Tuple) and isinstance(x.value, ast.Name) and any(isinstance(y, ast.Attribute) and y.attr == "name" for y in ast.walk(x.slice))]
    if not keys:
        ctx.ob(gr.qual, "reads-grouped-per-file", None, gr.loc(), "grouping key of _group_reads not found")
    else:
        attrs = {y.attr for y in ast.walk(keys[0]) if isinstance(y, ast.Attribute)}
        ok = {"source_id", "name", "sample_id"} <= attrs
        ctx.ob(gr.qual, "reads-grouped-per-file", ok, gr.loc(keys[0]), "alignments are grouped by (source_id, name, sample_id)" if ok else "the grouping key %s lacks %s: equally named reads of different input files are merged into one read that carries alleles of variants it does not overlap" % (u(keys[0]), sorted({"source_id", "name", "sample_id"} - attrs)))


def r11(ctx):
    """Reference-free walker: the variants an operation is matched against are those that START in the stretch of reference the
    operation consumes -- [ref_pos, ref_pos + length) for M/=/X/D, and only the insertion point itself for I, which consumes
    none.  With the window [ref_pos, ref_pos + length) for an I operation, an insertion variant up to length-1 bases to the
    right of an UNRELATED insertion is compared with the tail of that insertion's bases, and a read that carries the reference
    allele there is recorded with the inserted allele."""
    fi = ctx.func(VP + "._detect_alleles")
    cfg = ctx.cfg(fi)
    qloops = [n for n in walk_function(fi.node) if isinstance(n, ast.While) and any(isinstance(c, ast.Call) and isinstance(c.func, ast.Attribute) and c.func.attr == "append" and u(c.func.value) == "vqueue" for c in ast.walk(n))]
    # the outermost such loop is the walk over the CIGAR operations, the innermost the queueing loop
    qloops = [n for n in qloops if not any(m is not n and m in list(ast.walk(n)) for m in qloops)]
    if len(qloops) != 1:
        ctx.ob(fi.qual, "queue-window-is-the-consumed-reference", None, fi.loc(), "queueing loop (vqueue.append) not found in _detect_alleles")
        return
    ql = qloops[0]
    brk = [n for n in ast.walk(ql) if isinstance(n, ast.If) and any(isinstance(x, ast.Break) for x in n.body)]
    bound = None
    for b in brk:
        for t, pol in atoms(b.test, True):
            # var_pos >= BOUND, canonical form `var_pos < BOUND` negated
            if pol is False and t.startswith("var_pos < "):
                bound = t[len("var_pos < "):]
    if bound is None:
        ctx.ob(fi.qual, "queue-window-is-the-consumed-reference", None, fi.loc(ql), "cannot read where the queueing loop stops")
        return
    try:
        be = ast.parse(bound, mode="eval").body
    except SyntaxError:
        be = None
    split_defs = None
    if isinstance(be, ast.Name):
        # the definitions of the bound that reach the queueing loop (one, or one per branch of a test on the operation)
        qn = cfg.node_of(ql)
        alld = [(s_, v_) for s_, v_ in util.assignments_to(fi.node, be.id)]
        dn = {cfg.node_of(s_): (s_, v_) for s_, v_ in alld}
        reach = [(s_, v_) for n_, (s_, v_) in dn.items() if cfg.find_path(n_, qn, avoid_nodes=[m_ for m_ in dn if m_ != n_] + [qn]) is not None or any(qn == x_ for x_ in cfg.g.successors(n_))]
        reach = [(s_, v_) for s_, v_ in reach if cfg.find_path(cfg.node_of(s_), qn, avoid_nodes=[m_ for m_ in dn if m_ != cfg.node_of(s_)]) is not None]
        if len(reach) == 1 and isinstance(reach[0][1], ast.AST):
            be = reach[0][1]
        elif len(reach) == 2 and all(isinstance(v_, ast.AST) for s_, v_ in reach):
            base = guard_atoms(cfg, qn)
            tagged = {}
            for s_, v_ in reach:
                ga_ = guard_atoms(cfg, cfg.node_of(s_)) - base
                if ("1 == cigar_op", True) in ga_:
                    tagged["ins"] = v_
                elif ("1 == cigar_op", False) in ga_:
                    tagged["other"] = v_
            if set(tagged) == {"ins", "other"}:
                split_defs = (linear(tagged["ins"]), linear(tagged["other"]))
                be = ast.IfExp(test=ast.parse("cigar_op == 1", mode="eval").body, body=tagged["ins"], orelse=tagged["other"])
            else:
                be = None
        else:
            be = None
    def per_op(e):
        if isinstance(e, ast.IfExp):
            at = atoms(e.test, True)
            if at == {("1 == cigar_op", True)}:
                return linear(e.body), linear(e.orelse)
            if at == {("1 == cigar_op", False)}:
                return linear(e.orelse), linear(e.body)
            return None
        return (linear(e), linear(e)) if e is not None else None
    po = per_op(be)
    if po is None or po[0] is None or po[1] is None:
        ctx.ob(fi.qual, "queue-window-is-the-consumed-reference", None, fi.loc(ql), "cannot read the end of the queueing window (`%s`)" % (u(be) if be is not None else bound))
        return
    ins, other = po
    ok_other = other == {"ref_pos": 1, "length": 1}
    ok_ins = ins in ({"ref_pos": 1, "": 1},)
    ok = ok_other and ok_ins
    ctx.ob(fi.qual, "queue-window-is-the-consumed-reference", ok, fi.loc(ql), "an operation is matched against the variants that start in the reference it consumes (an insertion: only at the insertion point)" if ok else ("for an I operation the queueing window ends at %s: insertion variants up to length - 1 bases right of an unrelated insertion are compared with that insertion's bases, and a read carrying the reference allele is recorded with the inserted one" % u(be) if ok_other else "the queueing window ends at %s, not at ref_pos + length" % u(be)))


def r12(ctx):
    """cigar_prefix_length answers `how many query bases go with the first n reference bases`.  Where an operation carries the
    walk past n, the part of it beyond n is taken back from the query count only if the operation consumes query bases (M/=/X);
    a deletion that runs past n leaves the query count as it is.  Read from the path summaries: on every path that returns
    inside the loop, with r and q the amounts the path added to the two counters, the returned pair is
    (n, query_pos + q - (ref_pos + r - n)) if q else (n, query_pos)."""
    from sa import pathfx

    fi = ctx.func("whatshap.variants.ReadSetReader.cigar_prefix_length")
    cfg = ctx.cfg(fi)
    nparam = util.params_of(fi.node)[-1]
    loops = [n for n in walk_function(fi.node) if isinstance(n, ast.For)]
    if len(loops) != 1 or not isinstance(loops[0].target, ast.Tuple) or len(loops[0].target.elts) != 2:
        ctx.ob(fi.qual, "prefix-pair-takes-back-only-consumed-query", None, fi.loc(), "cannot find the loop over (operator, length) in cigar_prefix_length")
        return
    L = u(loops[0].target.elts[1])
    inside = {id(x) for st_ in loops[0].body for x in ast.walk(st_)}  # the body, not the else clause (which runs after the walk)
    try:
        sums = pathfx.summaries(cfg, opaque=("ref_pos", "query_pos"))
    except OverflowError:
        sums = []
    n_ret, bad, und = 0, None, None
    for ps in sums:
        rets = [e_ for e_ in ps.effects if e_[0] == "return" and e_[3] is not None and id(e_[3]) in inside]
        if len(rets) != 1 or not isinstance(rets[0][1], ast.Tuple) or len(rets[0][1].elts) != 2:
            continue
        rn, qn = linear(rets[0][1].elts[0]), linear(rets[0][1].elts[1])
        er, eq = linear(ps.env["ref_pos"]) if "ref_pos" in ps.env else {"ref_pos": 1}, linear(ps.env["query_pos"]) if "query_pos" in ps.env else {"query_pos": 1}
        if rn is None or qn is None or er is None or eq is None:
            und = "cannot read the pair returned at line %s" % getattr(rets[0][3], "lineno", "?")
            continue
        clean = lambda d: {k: v for k, v in d.items() if v}
        r_add, q_add = er.get(L, 0), eq.get(L, 0)
        if clean(er) != clean({"ref_pos": 1, L: r_add}) or clean(eq) != clean({"query_pos": 1, L: q_add}) or r_add not in (0, 1) or q_add not in (0, 1):
            und = "cannot read how the counters advance on a returning path"
            continue
        if r_add == 0:
            # stop at a reference skip / no reference consumed: nothing ran past n
            want = {"query_pos": 1, L: q_add}
        elif q_add:
            want = {"query_pos": 1, nparam: 1, "ref_pos": -1}
        else:
            want = {"query_pos": 1}
        n_ret += 1
        if clean(qn) != clean(want) and bad is None:
            bad = (ps, "on a path where the operation consumes %s, %s is returned as query length" % ("reference and query" if q_add else "reference only (a deletion)", u(rets[0][1].elts[1])))
    ok = (False if bad else (None if und or n_ret < 2 else True))
    ctx.ob(fi.qual, "prefix-pair-takes-back-only-consumed-query", ok, fi.loc(), "the part of an operation beyond the requested reference length is taken back from the query count exactly for operations that consume query bases (%d returning paths)" % n_ret if ok else ("cigar_prefix_length: %s: the query window is shortened by reference bases the read does not have, and the variant's base falls outside the window" % bad[1] if bad else (und or "fewer than two returning paths found in the loop")), cfg.describe_path(bad[0].path) if bad else None)


RULES = [
    ("C06.R1", "CIGAR consumption tables of the three walkers vs. SAM", r1),
    ("C06.R2", "unknown operators are rejected", r2),
    ("C06.R3", "overlap guards and split point / query offset of every yield", r3),
    ("C06.R4", "same flanks for all alleles; CIGAR split conservation", r4),
    ("C06.R5", "no guessing: strict best, non-empty candidates, symbolic ALT", r5),
    ("C06.R6", "no-reference handlers index allele and query by the same progress", r6),
    ("C06.R7", "variant normalisation strips only bases shared by all alleles", r7),
    ("C06.R8", "variant cursor skips only variants strictly left of the read", r8),
    ("C06.R9", "reference-free walker passes variants left of ref_pos before queueing", r9),
    ("C06.R10", "memo tables keyed consistently; reads grouped per input file", r10),
    ("C06.R11", "reference-free walker: an operation is matched against the variants starting in the reference it consumes", r11),
    ("C06.R12", "cigar_prefix_length takes the overshoot back from the query count only for query-consuming operations", r12),
]
# instance floors: about 60% of the instances confirmed by hand on the reference tree -- a rule that suddenly matches far fewer
# sites fails the run (exit 2); a clean-up that merges two sites into one does not
FLOORS = {"C06.R1": 16, "C06.R2": 3, "C06.R3": 5, "C06.R4": 7, "C06.R5": 6, "C06.R6": 2, "C06.R7": 2, "C06.R8": 2, "C06.R9": 2, "C06.R10": 3, "C06.R11": 1, "C06.R12": 1}
