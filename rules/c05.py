"""C05 -- pedigree phasing is Mendelian-consistent and ordered paternal|maternal (structural clauses)."""
import ast
import re

from sa.model import walk_function, AnalysisError
from sa.norm import u, atoms, guard_atoms, linear, SetExpr
from sa import util, clangq
from rules import common

PROPERTY = "C05"
NEEDS_PYX = True
PH = "whatshap.cli.phase"

EXPLANATION = (
    "Decides: R1 role flow -- the father/mother/child roles are followed hop by hop through three languages: PED columns 3/4 -> Trio(father, mother) -> keyword roles at create_pedigree -> "
    "positional order in core.pyx -> C++ parameter order -> triple slots 0/1/2 -> child is slot 2, its haplotype 0 takes the father's partition via transmission bit 2t, haplotype 1 the mother's via bit 2t+1 -> "
    "allele0/allele1 from haplotype 0/1 -> super-read first/second -> read sets in pedigree index order zipped with the same family sequence -> phase tuple in read order -> GT; so the first GT allele of a child is the one "
    "drawn from the father's partition; R2 exclusion -- by set algebra over {heterozygous, homozygous, missing, conflicts}, every variant with a missing genotype or a Mendelian conflict in the family is discarded in both "
    "include_homozygous modes and homozygous_positions only contains retained variants; conflicts are added exactly when all three genotypes are present and mendelian_conflict holds; "
    "R3 -- homozygous positions are made accessible only for len(family) > 1 with genetic haplotyping, whose CLI default is True; R4 -- the transmission bit layout of C++ (father bit 2t, mother bit 2t+1) matches its Python decoding."
)
EXPLANATION += (
    " " + "R1 also (hops 3b/3c): in setup_families no family_finder.merge is reachable after a family_finder.find (representatives are final when families / family_trios are keyed), and every trio of all_trios is filed under its child's family."
)
EXPLANATION += (
    " " + 'R7: a variant that is phased from the genotypes alone keeps a phase set of its own -- the component map covers every accessible position (C03.R2) and no family of a processed chromosome is passed over before it reaches the solver.'
)
NOT_DECIDED = "mendelian_conflict's truth table over genotype values and the allele-assignment filter of the cost computer (value level)."
ASSUMPTIONS = ["Pedigree::addIndividual assigns indices in call order (checked), ReadSet keeps insertion order until sort() is called"]


def _one(objs, kind, name):
    out = [m for o in objs for m in clangq.find(o, kind) if m.get("name") == name and any(x.get("kind") == "CompoundStmt" for x in m.get("inner", []))]
    return out


def r1(ctx):
    hops = []

    def hop(name, ok, loc, good, bad):
        ctx.ob("role-flow", "hop:%s" % name, ok, loc, good if ok else bad)  # ok=None: undecided

    # H1 PED columns
    pr = ctx.func("whatshap.pedigree.PedReader._parse_record")
    ok = False
    for n in walk_function(pr.node):
        if isinstance(n, ast.Assign) and isinstance(n.targets[0], ast.Tuple) and u(n.value) == "fields[1:4]":
            ok = [u(t) for t in n.targets[0].elts] == ["individual_id", "paternal_id", "maternal_id"]
    tr = [c for c in ctx.prog.calls_in(pr.node) if u(c.func) == "Trio"]
    kw = {k.arg: u(k.value) for k in tr[0].keywords} if tr else {}
    ok = ok and kw.get("child") == "individual_id" and kw.get("father", "").startswith("paternal_id") and kw.get("mother", "").startswith("maternal_id")
    hop("1 PED columns -> Trio", ok, pr.loc(), "PED column 3 (paternal) -> Trio.father, column 4 (maternal) -> Trio.mother, column 2 -> child", "PED columns are not mapped as (individual, paternal, maternal) = fields[1:4] -> Trio(child, father, mother)")
    # H2 keyword roles
    cp = ctx.func(PH + ".create_pedigree")
    ar = [c for c in ctx.prog.calls_in(cp.node) if u(c.func) == "pedigree.add_relationship"]
    kw = {k.arg: u(k.value) for k in ar[0].keywords} if ar else {}
    pos = [u(a) for a in ar[0].args] if ar else []
    params3 = util.params_of(ctx.func("whatshap.core.Pedigree.add_relationship").node)[1:]
    bound = dict(zip(params3, pos))
    bound.update(kw)
    ok = bound == {"father_id": "trio.father", "mother_id": "trio.mother", "child_id": "trio.child"}
    hop("2 Trio -> add_relationship roles", ok, cp.loc(ar[0]) if ar else cp.loc(), "add_relationship(father_id=trio.father, mother_id=trio.mother, child_id=trio.child)", "add_relationship binds %s" % bound)
    # H3 core.pyx positional order
    a3 = ctx.func("whatshap.core.Pedigree.add_relationship")
    calls = [c for c in ctx.prog.calls_in(a3.node) if u(c.func) == "self.thisptr.addRelationship"]
    ok = (None if not calls else (len(calls) == 1 and [u(a) for a in calls[0].args] == ["self.numeric_sample_ids[%s]" % p for p in ("father_id", "mother_id", "child_id")] and params3 == ["father_id", "mother_id", "child_id"]))
    hop("3 core.pyx -> C++ positional order", ok, a3.loc(), "addRelationship(ids[father_id], ids[mother_id], ids[child_id])", "core.pyx passes %s" % ([u(a) for a in calls[0].args] if calls else "?"))
    # H4/H5 C++ parameter order and triple slots
    objs = clangq.dump(ctx.prog, "src/pedigree.cpp", "Pedigree::addRelationship")
    ms = _one(objs, "CXXMethodDecl", "addRelationship")
    ctx.require(ms, "Pedigree::addRelationship definition not found")
    cparams = [p.get("name") for p in ms[0].get("inner", []) if p.get("kind") == "ParmVarDecl"]
    vd = [v for v in clangq.find(ms[0], "VarDecl") if v.get("inner")]
    txt = clangq.expr_text(vd[0]["inner"][-1]) if vd else ""
    slots = re.findall(r"id_to_index\((\w+)\)", txt)
    push = [c for c in clangq.find(ms[0], "CXXMemberCallExpr") if clangq.callee_name(c) == "push_back"]
    ok = cparams == ["father_id", "mother_id", "child_id"] and slots == ["father_id", "mother_id", "child_id"] and bool(push) and vd[0].get("name") in clangq.expr_text(push[0])
    ctx.analysed_files.add("src/pedigree.cpp")
    hop("4 C++ addRelationship -> triple slots", ok, "src/pedigree.cpp:%s" % clangq.line_of(ms[0]), "parameters (father_id, mother_id, child_id) fill triple slots 0, 1, 2", "addRelationship(%s) builds triple {%s}" % (", ".join(cparams), ", ".join(slots)))
    # H4b: indices are assigned in addIndividual order
    objs = clangq.dump(ctx.prog, "src/pedigree.cpp", "Pedigree::addIndividual")
    mi = _one(objs, "CXXMethodDecl", "addIndividual")
    ctx.require(mi, "Pedigree::addIndividual definition not found")
    t = " ".join(clangq.expr_text(n) for n in clangq.walk(mi[0]) if n.get("kind") in ("BinaryOperator", "CXXMemberCallExpr", "CXXOperatorCallExpr"))
    ok = "individual_ids.push_back(id)" in t and "id_to_index_map" in t and "individual_ids.size() - 1" in t
    hop("4b index = order of addIndividual", ok, "src/pedigree.cpp:%s" % clangq.line_of(mi[0]), "an individual's index is its position in the sequence of addIndividual calls", "addIndividual no longer assigns index = individual_ids.size() - 1")
    # H6 partitions
    objs = clangq.dump(ctx.prog, "src/pedigreepartitions.cpp", "PedigreePartitions")
    ctx.analysed_files.add("src/pedigreepartitions.cpp")
    ctor = [m for o in objs for m in clangq.find(o, "CXXConstructorDecl") if any(x.get("kind") == "CompoundStmt" for x in m.get("inner", []))]
    ctx.require(ctor, "PedigreePartitions constructor not found")
    t = [clangq.expr_text(n) for n in clangq.walk(ctor[0]) if n.get("kind") == "BinaryOperator" and n.get("opcode") == "="]
    ok = any(re.fullmatch(r"\(triple_indices\[pedigree\.get_triples\(\)\[i\]\[2\]\] = i\)", x) for x in t)
    hop("5 child is triple slot 2", ok, "src/pedigreepartitions.cpp:%s" % clangq.line_of(ctor[0]), "triple_indices[triples[i][2]] = i: slot 2 is the child", "the constructor does not index the child by triple slot 2")
    rec = _one(objs, "CXXMethodDecl", "compute_haplotype_to_partition_rec")
    ctx.require(rec, "compute_haplotype_to_partition_rec not found")
    # single-assignment locals are expanded to their initialisers, parentheses and blanks dropped: the hop is judged on
    # the fully expanded assignment  map[i] = { map[triples[ti][0]][NOT bit(2*ti)], map[triples[ti][1]][NOT bit(2*ti+1)] }
    env6 = clangq.local_inits(rec[0])
    flat = lambda t: t.replace("(", "").replace(")", "").replace(" ", "")
    asg_nodes = [n for n in clangq.find(rec[0], "CXXOperatorCallExpr") if clangq.expr_text(n).startswith("operator=(this->haplotype_to_partition_map[i]")]
    ok6, why6 = None, "assignment to haplotype_to_partition_map[i] not found"
    if len(asg_nodes) == 1:
        full = flat(clangq.expr_text(asg_nodes[0], env6))
        mm = re.match(r"operator=this->haplotype_to_partition_map\[i\],\{+(.*?)\}+$", full)
        why6 = "assignment is %s" % full[:200]
        if mm:
            # split the two initialisers at the top-level comma
            body6, depth, parts, cur = mm.group(1), 0, [], ""
            for ch in body6:
                if ch in "[{":
                    depth += 1
                elif ch in "]}":
                    depth -= 1
                if ch == "," and depth == 0:
                    parts.append(cur)
                    cur = ""
                else:
                    cur += ch
            parts.append(cur)
            if len(parts) == 2:
                TI = "triple_indices[i]"

                def selector_ok(sel, shift):
                    bit = "this->transmission_vector>>%s&1" % shift
                    return sel in ("!" + bit, bit + "?0:1", "1-" + bit, bit + "==0", "!bool" + bit)

                res = []
                for part, slot, shift in ((parts[0], "0", "2*" + TI), (parts[1], "1", "2*" + TI + "+1")):
                    base, idx = clangq.split_index_chain(part)
                    okp_ = base == "this->haplotype_to_partition_map" and len(idx) == 2
                    if okp_:
                        pb, pidx = clangq.split_index_chain(idx[0])
                        okp_ = pb.endswith("get_triples") and pidx == [TI, slot] and selector_ok(idx[1], shift)
                    res.append(okp_)
                ok6 = all(res)
                if not ok6:
                    why6 = "child partitions are {%s , %s}" % (parts[0][:120], parts[1][:120])
    hop("6 child hap 0 <- father (bit 2t), hap 1 <- mother (bit 2t+1)", ok6, "src/pedigreepartitions.cpp:%s" % clangq.line_of(rec[0]), "haplotype_to_partition[child] = {father's (triple slot 0) partition chosen by NOT bit 2t, mother's (slot 1) partition chosen by NOT bit 2t+1}", why6)
    # H7 get_alleles
    objs = clangq.dump(ctx.prog, "src/pedigreecolumncostcomputer.cpp", "PedigreeColumnCostComputer::get_alleles")
    ctx.analysed_files.add("src/pedigreecolumncostcomputer.cpp")
    ga = _one(objs, "CXXMethodDecl", "get_alleles")
    ctx.require(ga, "get_alleles not found")
    vds = {v.get("name"): clangq.expr_text(v["inner"][-1]) for v in clangq.find(ga[0], "VarDecl") if v.get("inner")}
    ok = vds.get("partition0", "").endswith("haplotype_to_partition(individuals_index, 0)") and vds.get("partition1", "").endswith("haplotype_to_partition(individuals_index, 1)") and vds.get("allele0") == "((a.assignment >> partition0) & 1)" and vds.get("allele1") == "((a.assignment >> partition1) & 1)"
    asg = [clangq.expr_text(n) for n in clangq.find(ga[0], "CXXOperatorCallExpr") if clangq.expr_text(n).startswith("operator=(pop_haps[individuals_index]")]
    ok = ok and bool(asg) and re.search(r"phased_variant_t\(\(\(allele0 == 0\) \? REF_ALLELE : ALT_ALLELE\), \(\(allele1 == 0\) \? REF_ALLELE : ALT_ALLELE\)\)", asg[0]) is not None
    hop("7 allele0/allele1 from haplotype 0/1", ok, "src/pedigreecolumncostcomputer.cpp:%s" % clangq.line_of(ga[0]), "allele0 is read from haplotype 0's partition, allele1 from haplotype 1's, and stored as phased_variant_t(allele0, allele1)", "get_alleles no longer maps haplotype 0/1 to allele0/allele1")
    hdr = open(ctx.prog.real("src/pedigreecolumncostcomputer.h")).read()
    ok = re.search(r"phased_variant_t\(Entry::allele_t allele0, Entry::allele_t allele1\)\s*:\s*allele0\(allele0\),\s*allele1\(allele1\)", hdr) is not None
    hop("7b phased_variant_t constructor order", ok, "src/pedigreecolumncostcomputer.h", "phased_variant_t(a0, a1) stores (allele0, allele1) in that order", "phased_variant_t constructor no longer stores its arguments as (allele0, allele1)")
    # H8 super reads
    objs = clangq.dump(ctx.prog, "src/pedigreedptable.cpp", "PedigreeDPTable::get_super_reads")
    ctx.analysed_files.add("src/pedigreedptable.cpp")
    gs = _one(objs, "CXXMethodDecl", "get_super_reads")
    ctx.require(gs, "PedigreeDPTable::get_super_reads not found")
    calls = [clangq.expr_text(c) for c in clangq.find(gs[0], "CXXMemberCallExpr") if clangq.callee_name(c) in ("addVariant", "add")]
    av = [c for c in calls if "addVariant" in c]
    ad = [c for c in calls if "->add(" in c]
    ok = (None if not av else (len(av) == 2 and "superreads[k].first->addVariant" in av[0] and "population_alleles[k].allele0" in av[0] and "superreads[k].second->addVariant" in av[1] and "population_alleles[k].allele1" in av[1]))
    ok = ok and len(ad) == 2 and "at(k)->add(superreads[k].first)" in ad[0] and "at(k)->add(superreads[k].second)" in ad[1]
    hop("8 super-read first/second <- allele0/allele1, added in that order", ok, "src/pedigreedptable.cpp:%s" % clangq.line_of(gs[0]), "super-read .first gets allele0, .second gets allele1; they are added first, second to read set k (pedigree index k)", "get_super_reads no longer routes allele0 -> first, allele1 -> second in this order: %s" % calls)
    # H9 python side: index order, same family sequence, tuple order
    gsp = ctx.func("whatshap.core.PedigreeDPTable.get_super_reads")
    loops = [n for n in walk_function(gsp.node) if isinstance(n, ast.For) and u(n.iter) == "range(read_sets.size())"]
    ok = (None if not loops else (len(loops) == 1 and any(isinstance(c, ast.Call) and u(c.func) == "results.append" for c in ast.walk(loops[0])) and any(isinstance(s, ast.Assign) and u(s.value) == "deref(read_sets)[%s]" % u(loops[0].target) for s in ast.walk(loops[0]))))
    hop("9a core.pyx returns read sets in pedigree index order", ok, gsp.loc(), "results[i] wraps read set i", "core.pyx no longer returns the read sets in index order")
    run = ctx.func(PH + ".run_whatshap")
    def _is_zip(e):
        return u(util.expand_single_defs(run.node, e)) in ("zip(family, superreads_list)", "list(zip(family, superreads_list))", "tuple(zip(family, superreads_list))")

    z = [n for n in walk_function(run.node) if isinstance(n, ast.For) and _is_zip(n.iter) and isinstance(n.target, ast.Tuple) and len(n.target.elts) == 2]
    cpl = [n for n in walk_function(cp.node) if isinstance(n, ast.For) and u(n.iter) == "family" and any(isinstance(c, ast.Call) and u(c.func) == "pedigree.add_individual" and u(c.args[0]) == u(n.target) for c in ast.walk(n))]
    cpc = [c for c in ctx.prog.calls_in(run.node) if u(c.func) == "create_pedigree"]
    fam_arg = None
    if cpc:
        amap = dict(zip(util.params_of(cp.node), [u(a) for a in cpc[0].args]))
        fam_arg = amap.get("family")
    # every entry of the per-sample result table is a (family member, read set) pair of that zip: stored in a loop over it
    # (the loop may be split into several over the same zip) or handed to update() whole
    sr_st = [s_ for s_ in util.store_sites(run.node) if s_.kind == "subscript" and u(s_.target.value) == "superreads"]
    sr_up = [c for c in ctx.prog.calls_in(run.node) if u(c.func) == "superreads.update"]
    def _in_zip_loop(s_):
        return any(s_.stmt in list(ast.walk(l_)) and u(s_.target.slice) == u(l_.target.elts[0]) and u(s_.value) == u(l_.target.elts[1]) for l_ in z)
    if not z and not sr_up:
        ok = None
    else:
        ok = len(cpl) == 1 and fam_arg == "family" and bool(sr_st or sr_up) and all(_in_zip_loop(s_) for s_ in sr_st) and all(len(c.args) == 1 and not c.keywords and _is_zip(c.args[0]) for c in sr_up)
    sl = util.single_def(run.node, "superreads_list")
    oks = any(isinstance(n, ast.Assign) and isinstance(n.targets[0], ast.Tuple) and u(n.targets[0].elts[0]) == "superreads_list" and u(n.value) == "dp_table.get_super_reads()" for n in walk_function(run.node))
    hop("9b same family sequence for add_individual and for zip with the result", ok and oks, run.loc(z[0]) if z else run.loc(), "individuals are added in `family` order and the solver's read sets are zipped with the same `family`", "the family sequence used for add_individual and the one zipped with the super reads differ")
    w = ctx.func("whatshap.vcf.PhasedVcfWriter.write")
    ph = util.single_def(w.node, "phasing")
    ps = ctx.func("whatshap.vcf.PhasedVcfWriter._set_PS")
    st = [s for s in util.store_sites(ps.node) if s.kind == "subscript" and util.const_key(s.target) == "GT"]
    ok = ph is not None and u(ph) == "tuple((v.allele for v in variants))" and len(st) == 1 and u(st[0].value) == util.params_of(ps.node)[3]
    hop("9c phase tuple in read order -> GT", ok, w.loc(), "GT = (allele of super-read 0, allele of super-read 1)", "the phase tuple / GT store no longer follow super-read order")
    # no sort between solver and writer
    srt = [c for c in ctx.prog.calls_in(run.node) if isinstance(c.func, ast.Attribute) and c.func.attr == "sort" and "superread" in u(c.func.value)]
    hop("9d super-read order untouched", not srt, run.loc(srt[0]) if srt else run.loc(), "the two super reads of a sample are never re-sorted between solver and writer", "super reads are re-sorted (%s): haplotype 0/1 can swap" % (u(srt[0]) if srt else ""))

    # every trio is filed under the FINAL representative of its family: representatives are read only after all merges
    sf = ctx.func(PH + ".setup_families")
    scfg = ctx.cfg(sf)
    rel = util.result_relevant_names(sf.node)
    finds = [c for c in ctx.prog.calls_in(sf.node) if u(c.func) == "family_finder.find" and util.affects_result(sf.node, util.stmt_of(c), rel)]
    merges = [c for c in ctx.prog.calls_in(sf.node) if u(c.func) == "family_finder.merge"]
    ctx.require(len(finds) >= 2 and len(merges) >= 2, "family_finder.find / .merge calls not found in setup_families")
    stale = None
    for f_ in finds:
        for m_ in merges:
            p_ = scfg.find_path(scfg.node_containing(f_), scfg.node_containing(m_), start_after=True)
            if p_ is not None and stale is None:
                stale = (f_, m_, p_)
    hop("3b representatives read after all merges", stale is None, sf.loc(stale[0]) if stale else sf.loc(), "no family_finder.merge is reachable after a family_finder.find: families and family_trios are keyed by final representatives", "%s is evaluated while merges are still to come (%s): a trio/sample is filed under a representative that later changes, so the trio is missing from its family's pedigree" % (u(stale[0]) if stale else "", u(stale[1]) if stale else ""))
    ft = [s_ for s_ in util.store_sites(sf.node) if s_.kind == "call" and s_.method == "append" and u(s_.target).startswith("family_trios[")]
    ok = (None if not ft else (len(ft) == 1 and isinstance(ft[0].stmt.parent, ast.For) and u(ft[0].stmt.parent.iter) == "all_trios" and u(ft[0].call.args[0]) == u(ft[0].stmt.parent.target) and u(ft[0].target) == "family_trios[family_finder.find(%s.child)]" % u(ft[0].stmt.parent.target)))
    hop("3c every trio filed under its child's family", ok, sf.loc(ft[0].stmt) if ft else sf.loc(), "for trio in all_trios: family_trios[find(trio.child)].append(trio)", "not every trio of the pedigree is appended to family_trios under its child's family")


def r2(ctx):
    fi = ctx.func(PH + ".find_phaseable_variants")
    cfg = ctx.cfg(fi)
    names = ("heterozygous", "homozygous", "missing_genotypes", "mendelian_conflicts")
    atoms_ = names

    def ev(e, env):
        if isinstance(e, ast.Name):
            if e.id in env:
                return env[e.id]
            if e.id in names:
                return SetExpr.atom(atoms_, e.id)
            return None
        if isinstance(e, ast.Call) and isinstance(e.func, ast.Attribute) and e.func.attr in ("difference", "union", "intersection") and len(e.args) == 1:
            a, b = ev(e.func.value, env), ev(e.args[0], env)
            if a is None or b is None:
                return None
            return {"difference": a.diff, "union": a.union, "intersection": a.inter}[e.func.attr](b)
        if isinstance(e, ast.Call) and u(e) == "set(range(len(variant_table)))":
            return SetExpr(atoms_, SetExpr.universe(atoms_))
        if isinstance(e, ast.IfExp) and atoms(e.test, True) in ({("include_homozygous", True)}, {("include_homozygous", False)}):
            positive = atoms(e.test, True) == {("include_homozygous", True)}
            return ev(e.body if env.get("<mode>") == positive else e.orelse, env)
        if isinstance(e, ast.Call) and isinstance(e.func, ast.Name) and e.func.id in ("set", "frozenset") and len(e.args) == 1 and not e.keywords:
            return ev(e.args[0], env)  # a copy of a set is the same set of indices
        if isinstance(e, ast.BinOp) and isinstance(e.op, (ast.Sub, ast.BitOr, ast.BitAnd)):
            a, b = ev(e.left, env), ev(e.right, env)
            if a is None or b is None:
                return None
            return {ast.Sub: a.diff, ast.BitOr: a.union, ast.BitAnd: a.inter}[type(e.op)](b)
        return None

    missing = SetExpr.atom(atoms_, "missing_genotypes")
    conflicts = SetExpr.atom(atoms_, "mendelian_conflicts")
    hom = SetExpr.atom(atoms_, "homozygous")
    for mode in (True, False):
        env = {"<mode>": mode}
        # walk the straight-line assignments in order, taking the branch of `include_homozygous`
        def run_block(stmts):
            for s in stmts:
                if isinstance(s, ast.If) and atoms(s.test, True) in ({("include_homozygous", True)}, {("include_homozygous", False)}):
                    positive = atoms(s.test, True) == {("include_homozygous", True)}
                    run_block(s.body if mode == positive else s.orelse)
                elif isinstance(s, ast.Assign) and len(s.targets) == 1 and isinstance(s.targets[0], ast.Name) and s.targets[0].id not in names:
                    v = ev(s.value, env)
                    if v is not None:
                        env[s.targets[0].id] = v
                    else:
                        env.pop(s.targets[0].id, None)

        run_block(fi.node.body)
        ok = "to_discard" in env and "to_retain" in env
        tag = "include_homozygous=%s" % mode
        if ok:
            d, r_ = env["to_discard"], env["to_retain"]
            ok1 = missing.union(conflicts).subset_of(d)
            ctx.ob(fi.qual, "discard-covers-missing-and-conflicts:%s" % tag, ok1, fi.loc(), "to_discard ⊇ missing ∪ conflicts (%s)" % tag if ok1 else "a variant with a missing genotype or a Mendelian conflict can be retained (%s)" % tag)
            ok2 = d.equals(SetExpr(atoms_, SetExpr.universe(atoms_)).diff(r_))
            ctx.ob(fi.qual, "discard-is-complement-of-retain:%s" % tag, ok2, fi.loc(), "to_discard = all − to_retain (%s)" % tag if ok2 else "to_discard is not the complement of to_retain (%s)" % tag)
            if not mode:
                ok3 = r_.subset_of(SetExpr.atom(atoms_, "heterozygous"))
                ctx.ob(fi.qual, "only-het-somewhere-retained:%s" % tag, ok3, fi.loc(), "without include_homozygous only variants heterozygous in some member are retained" if ok3 else "variants not heterozygous anywhere can be retained")
        else:
            ctx.ob(fi.qual, "set-algebra:%s" % tag, None, fi.loc(), "could not evaluate to_retain / to_discard as set expressions over {heterozygous, homozygous, missing_genotypes, mendelian_conflicts}")
    hp = util.single_def(fi.node, "homozygous_positions")
    ok = hp is not None and isinstance(hp, ast.ListComp) and u(hp.generators[0].iter) in ("to_retain.intersection(homozygous)", "homozygous.intersection(to_retain)", "to_retain & homozygous") and u(hp.elt) == "variant_table.variants[%s].position" % u(hp.generators[0].target)
    ctx.ob(fi.qual, "homozygous-positions-are-retained", ok, fi.loc(), "homozygous_positions ⊆ retained variants" if ok else "homozygous_positions is %s" % (u(hp) if hp is not None else "?"))
    rm = [c for c in ctx.prog.calls_in(fi.node) if u(c.func) == "phasable_variant_table.remove_rows_by_index"]
    ok = (None if not rm else (len(rm) == 1 and u(rm[0].args[0]) == "to_discard" and u(util.single_def(fi.node, "phasable_variant_table")) == "deepcopy(variant_table)"))
    ctx.ob(fi.qual, "discarded-rows-removed", ok, fi.loc(), "to_discard rows are removed from a copy of the table" if ok else "to_discard is not removed from the phasable table")
    # classification of genotypes
    adds = {u(c.func): c for c in ctx.prog.calls_in(fi.node) if isinstance(c.func, ast.Attribute) and c.func.attr == "add"}
    okc = True
    for recv, want in (("missing_genotypes.add", [("gt.is_none()", True)]), ("heterozygous.add", [("gt.is_none()", False), ("gt.is_homozygous()", False)]), ("homozygous.add", [("gt.is_none()", False), ("gt.is_homozygous()", True)])):
        c = adds.get(recv)
        if c is None:
            okc = False
            continue
        ga = guard_atoms(cfg, cfg.node_containing(c))
        okc = okc and all(a in ga for a in want) and u(c.args[0]) == "index"
    ctx.ob(fi.qual, "three-way-classification", okc, fi.loc(), "each genotype is classified as missing / heterozygous / homozygous, in that precedence, for every family member" if okc else "the missing/het/hom classification changed")
    fl = [n for n in walk_function(fi.node) if isinstance(n, ast.For) and u(n.iter) == "family"]
    ctx.ob(fi.qual, "all-family-members-classified", len(fl) == 1, fi.loc(), "the classification runs over every member of the family" if fl else "classification does not loop over the family")
    mc = ctx.func(PH + ".find_mendelian_conflicts")
    mcfg = ctx.cfg(mc)
    addc = [c for c in ctx.prog.calls_in(mc.node) if u(c.func) == "mendelian_conflicts.add"]
    ok = len(addc) == 1
    if ok:
        ga = guard_atoms(mcfg, mcfg.node_containing(addc[0]))
        ok = all(("%s.is_none()" % g, False) in ga for g in ("gt_mother", "gt_father", "gt_child")) and ("mendelian_conflict(gt_mother, gt_father, gt_child)", True) in ga
        if not ok and any("is_none()" in t_ and ("any(" in t_ or "all(" in t_) for t_, p_ in ga) and any(t_.startswith("mendelian_conflict(") and p_ for t_, p_ in ga):
            ok = None  # the presence test is quantified over a sequence of the three genotypes: not read by this rule
    ctx.ob(mc.qual, "conflict-iff-all-present-and-conflicting", ok, mc.loc(), "an index is a conflict exactly when all three genotypes are present and mendelian_conflict(mother, father, child) holds" if ok else "conflict detection guard changed")
    # the loop that walks the three genotype columns in parallel: zip(A, B, C) with targets (x, y, z); A, B, C (locals resolved)
    # are the columns of trio.mother / trio.father / trio.child, and mendelian_conflict is called as (x, y, z) in that order
    ok = None
    for n in walk_function(mc.node):
        if not isinstance(n, ast.For):
            continue
        it = n.iter
        tgt = n.target
        if isinstance(it, ast.Call) and u(it.func) == "enumerate" and it.args and isinstance(tgt, ast.Tuple) and len(tgt.elts) == 2:
            it, tgt = it.args[0], tgt.elts[1]
        it = util.expand_single_defs(mc.node, it)
        if not (isinstance(it, ast.Call) and u(it.func) == "zip" and len(it.args) == 3 and isinstance(tgt, ast.Tuple) and len(tgt.elts) == 3):
            continue
        cols = [u(a_) for a_ in it.args]
        roles = []
        for c_ in cols:
            m_ = [r_ for r_ in ("mother", "father", "child") if c_.endswith(".genotypes_of(trio.%s)" % r_)]
            roles.append(m_[0] if len(m_) == 1 else None)
        names_ = [u(t_) for t_ in tgt.elts]
        calls_ = [c_ for c_ in ast.walk(n) if isinstance(c_, ast.Call) and u(c_.func) == "mendelian_conflict" and len(c_.args) == 3]
        ok = roles == ["mother", "father", "child"] and len(calls_) == 1 and [u(a_) for a_ in calls_[0].args] == names_
        if None not in roles and sorted(roles) == ["child", "father", "mother"] and len(calls_) == 1 and not ok:
            # another column order is fine as long as each column reaches the parameter of its role
            by_role = dict(zip(roles, names_))
            ok = [u(a_) for a_ in calls_[0].args] == [by_role["mother"], by_role["father"], by_role["child"]]
    ctx.ob(mc.qual, "roles-of-the-three-genotypes", ok, mc.loc(), "the three genotype columns are those of trio.mother / trio.father / trio.child in the order mendelian_conflict expects" if ok else "genotype columns are not bound to the trio's roles in order")
    pc = ctx.func("whatshap.pedigree.mendelian_conflict")
    ok = util.params_of(pc.node) == ["genotypem", "genotypef", "genotypec"]
    ctx.ob(pc.qual, "mendelian_conflict-parameter-order", ok, pc.loc(), "mendelian_conflict(mother, father, child)" if ok else "mendelian_conflict parameters are %s" % util.params_of(pc.node))
    # the predicate: no conflict iff (c0 from mother and c1 from father) or (c1 from mother and c0 from father).
    # Decision table over the four membership tests, from the path summaries (shape-independent)
    pcfg = ctx.cfg(pc)
    M, F, C = "genotypem.as_vector()", "genotypef.as_vector()", "genotypec.as_vector()"
    A4 = ["%s[0] in %s" % (C, M), "%s[1] in %s" % (C, F), "%s[1] in %s" % (C, M), "%s[0] in %s" % (C, F)]
    try:
        table = common.path_decision_table(pcfg, A4)
        wrong = [v for v, outs in sorted(table.items()) if outs != {not ((v[0] and v[1]) or (v[2] and v[3]))}]
        complete = len(table) == 16
        okp = not wrong and complete
        why = "for c0 in mother=%s, c1 in father=%s, c1 in mother=%s, c0 in father=%s mendelian_conflict returns %s" % (wrong[0] + (sorted(table[wrong[0]]),)) if wrong else ("the decision table is incomplete" if not complete else "")
        ctx.ob(pc.qual, "both-origin-assignments-tested", okp, pc.loc(), "over all 16 valuations of the four membership tests: no conflict iff (c0 from mother and c1 from father) or (c1 from mother and c0 from father)" if okp else "mendelian_conflict does not decide by the two mirror-image origin assignments: " + why)
    except ValueError as e_:
        ctx.ob(pc.qual, "both-origin-assignments-tested", None, pc.loc(), "mendelian_conflict is not a decision over the four membership tests of the child's two alleles in the parents' genotypes (%s)" % e_)
    fp = [c for c in ctx.prog.calls_in(fi.node) if u(c.func) == "find_mendelian_conflicts"]
    ok = (None if not fp else (len(fp) == 1 and [u(a) for a in fp[0].args] == ["trios", "variant_table"]))
    ctx.ob(fi.qual, "conflicts-of-this-familys-trios", ok, fi.loc(), "conflicts are computed for this family's trios on the full table" if ok else "find_mendelian_conflicts arguments changed")


def r3(ctx):
    run = ctx.func(PH + ".run_whatshap")
    cfg = ctx.cfg(run)
    # what reaches the subsetting of the variant table as accessible positions, path by path (the computation may sit in a
    # helper, use other local names, or return early): the covered positions, joined with the homozygous ones exactly on the
    # paths with len(family) > 1 and genetic haplotyping
    from sa import pathfx

    sub = [c for c in ctx.prog.calls_in(run.node) if isinstance(c.func, ast.Attribute) and c.func.attr == "subset_rows_by_position" and u(c.func.value) == "phasable_variant_table" and len(c.args) == 1]
    gp = [n for n in walk_function(run.node) if isinstance(n, (ast.Assign, ast.AnnAssign)) and "all_reads.get_positions()" in u(n.value if n.value is not None else n)]
    ok, where, why = None, run.loc(), "cannot find where the accessible positions are computed and used"
    if len(sub) == 1 and len(gp) == 1:
        where = run.loc(sub[0])
        try:
            sums = pathfx.summaries(cfg, src=cfg.node_of(gp[0]), dst=cfg.node_containing(sub[0]))
        except OverflowError:
            sums = []
        COV = ("sorted(all_reads.get_positions())",)
        UNI = tuple("sorted(set(%s).union(homozygous_positions))" % x for x in ("sorted(all_reads.get_positions())", "all_reads.get_positions()")) + tuple("sorted(set(%s) | set(homozygous_positions))" % x for x in ("sorted(all_reads.get_positions())", "all_reads.get_positions()"))
        if sums:
            ok, why = True, ""
        for ps in sums:
            val = u(pathfx.subst(sub[0].args[0], ps.env))
            fam = ps.has("1 < len(family)", True) and ps.has("genetic_haplotyping", True)
            nofam = ps.has("1 < len(family)", False) or ps.has("genetic_haplotyping", False) or any(((not p_) and t_ in ("(1 < len(family) and genetic_haplotyping)", "(genetic_haplotyping and 1 < len(family))")) or (p_ and t_ in ("(not 1 < len(family) or not genetic_haplotyping)", "(not genetic_haplotyping or not 1 < len(family))")) for t_, p_ in ps.atoms)
            if "homozygous_positions" in val:
                if not fam:
                    ok, why = False, "the union with homozygous_positions is not guarded by len(family) > 1 and genetic_haplotyping"
                elif val not in UNI:
                    # not one of the union spellings: a boolean `or` / `and`, an intersection or a difference of the two sets is
                    # certainly not their union; anything else is left undecided
                    ve = ast.parse(val, mode="eval").body
                    inner_ = ve.args[0] if isinstance(ve, ast.Call) and u(ve.func) in ("sorted", "list") and len(ve.args) == 1 else ve
                    not_union = isinstance(inner_, ast.BoolOp) or (isinstance(inner_, ast.BinOp) and isinstance(inner_.op, (ast.BitAnd, ast.Sub, ast.BitXor))) or (isinstance(inner_, ast.Call) and isinstance(inner_.func, ast.Attribute) and inner_.func.attr in ("intersection", "difference", "symmetric_difference"))
                    if not_union:
                        ok, why = False, "with genetic haplotyping the accessible positions are %s, which is not the union of the covered and the homozygous positions" % val[:90]
                    else:
                        ok, why = (None if ok else ok), "accessible positions in genetic mode are %s" % val[:80]
            else:
                if fam:
                    ok, why = False, "with len(family) > 1 and genetic haplotyping the homozygous positions are not added to the accessible ones (%s)" % val[:60]
                elif val not in COV:
                    ok, why = (None if ok else ok), "accessible positions are %s" % val[:80]
                elif not nofam and ok:
                    ok, why = None, "cannot read under which condition the homozygous positions are left out"
    ctx.ob(run.qual, "homozygous-positions-accessible-only-in-genetic-mode", ok, where, "homozygous positions join the accessible ones exactly for len(family) > 1 with genetic haplotyping" if ok else why)
    aa = ctx.func(PH + ".add_arguments")
    opt = [c for c in ctx.prog.calls_in(aa.node) if any(isinstance(a, ast.Constant) and a.value == "--no-genetic-haplotyping" for a in c.args)]
    ok = len(opt) == 1
    if ok:
        kw = {k.arg: u(k.value) for k in opt[0].keywords}
        ok = kw.get("dest") == "'genetic_haplotyping'" and kw.get("action") == "'store_false'" and kw.get("default") == "True"
    ctx.ob(aa.qual, "genetic-haplotyping-default-on", ok, aa.loc(opt[0]) if opt else aa.loc(), "--no-genetic-haplotyping stores False into genetic_haplotyping, default True" if ok else "the CLI default of genetic_haplotyping is no longer True")
    sig = {a.arg: u(d) for a, d in zip(run.node.args.args[-len(run.node.args.defaults):], run.node.args.defaults)}
    ok = sig.get("genetic_haplotyping") == "True"
    ctx.ob(run.qual, "api-default-on", ok, run.loc(), "run_whatshap(genetic_haplotyping=True) by default" if ok else "run_whatshap's default for genetic_haplotyping is %s" % sig.get("genetic_haplotyping"))
    sub = [c for c in ctx.prog.calls_in(run.node) if u(c.func) == "phasable_variant_table.subset_rows_by_position"]
    ok = (None if not sub else (len(sub) == 1 and u(sub[0].args[0]) == "accessible_positions"))
    ctx.ob(run.qual, "table-restricted-to-accessible", ok, run.loc(), "the phasable table is cut down to the accessible positions" if ok else "subset_rows_by_position(accessible_positions) missing")


def r4(ctx):
    # C++: bit 2t father, 2t+1 mother -- established in R1 hop 6.  Python decoding:
    from rules import c20

    fr = ctx.func("whatshap.pedigree.find_recombination")
    evs = [c for c in ctx.prog.calls_in(fr.node) if u(c.func) == "RecombinationEvent"]
    ctx.require(len(evs) == 1, "RecombinationEvent construction not found")
    ok, exprs = c20.decode_layout(evs[0])
    cls = ctx.prog.cls("whatshap.pedigree.RecombinationEvent")
    fields = [n.target.id for n in cls.node.body if isinstance(n, ast.AnnAssign)]
    ok = ok and fields[2:6] == ["transmitted_hap_father1", "transmitted_hap_father2", "transmitted_hap_mother1", "transmitted_hap_mother2"]
    ctx.ob(fr.qual, "low-bit-father-high-bit-mother", ok, fr.loc(evs[0]), "value % 2 fills the father fields, value // 2 the mother fields (C++: father bit 2t, mother bit 2t+1)" if ok else "decoding %s into fields %s does not match the C++ layout" % (exprs, fields[2:6]))
    c20.check_block_lookup(ctx, fr)
    wr, ok = c20.trio_digit_decoding(ctx)
    ctx.ob(wr.qual, "two-bits-per-trio-lowest-first", ok, wr.loc(), "trio t's value is digit t of the base-4 expansion (bits 2t, 2t+1), in trios order" if ok else ("per-trio decoding is not `% 4` then `// 4` in trios order" if ok is False else "cannot read how write_recombination_list splits the transmission values into per-trio digits"))
    cp = ctx.func(PH + ".create_pedigree")
    tl = [n for n in walk_function(cp.node) if isinstance(n, ast.For) and u(n.iter) == "trios" and any(isinstance(c, ast.Call) and u(c.func) == "pedigree.add_relationship" for c in ast.walk(n))]
    run = ctx.func(PH + ".run_whatshap")
    wc = [c for c in ctx.prog.calls_in(run.node) if u(c.func) == "write_recombination_list"]
    cc = [c for c in ctx.prog.calls_in(run.node) if u(c.func) == "create_pedigree"]
    ok = len(tl) == 1 and len(wc) == 1 and len(cc) == 1 and u(wc[0].args[-1]) == "trios" and u(cc[0].args[-1]) == "trios"
    ctx.ob(run.qual, "same-trio-order-for-encoding-and-decoding", ok, run.loc(), "relationships are added in `trios` order (triple index t) and decoded in the same `trios` order" if ok else "the trio sequence used for add_relationship differs from the one used for decoding")
    hdr = open(ctx.prog.real("src/pedigreedptable.cpp")).read()
    ok = re.search(r"pow\(\s*4\s*,\s*pedigree->triple_count\(\)\s*\)|1\s*<<\s*\(\s*2\s*\*\s*pedigree->triple_count\(\)\s*\)", hdr) is not None
    ctx.ob("PedigreeDPTable", "four-values-per-trio", ok, "src/pedigreedptable.cpp", "the DP enumerates 4^trios transmission values" if ok else "the number of transmission values is no longer 4^triple_count")


def r5(ctx):
    # the trio's calls are rewritten through the same writer: GT normalisation may not depend on the input call's phase
    from rules import c09

    c09.r3(ctx)


def r6(ctx):
    """Every relationship of the PED file is considered: the loop that turns PED lines into trios is left only when the file is
    exhausted, and a relationship is skipped only for the two documented reasons (unknown individual, not among the samples)."""
    sp = ctx.func(PH + ".setup_pedigree")
    cfg = ctx.cfg(sp)
    loops = [n for n in walk_function(sp.node) if isinstance(n, ast.For) and isinstance(n.iter, ast.Call) and u(n.iter.func) == "PedReader"]
    if len(loops) != 1:
        ctx.ob(sp.qual, "every-relationship-considered", None, sp.loc(), "loop over PedReader(...) not found in setup_pedigree")
        return
    lp = loops[0]
    tv = u(lp.target)
    exits = util.lexical_loop_exits(lp)
    ctx.ob(sp.qual, "every-relationship-considered", not exits, sp.loc(exits[0]) if exits else sp.loc(lp), "the PED loop runs over all relationships" if not exits else "`%s` leaves the PED loop at the first relationship that is passed over: every trio listed after it is dropped and its members are phased as unrelated individuals" % u(exits[0]))
    apps = [c for c in ctx.prog.calls_in(lp) if isinstance(c.func, ast.Attribute) and c.func.attr == "append" and c.args and u(c.args[0]) == tv]
    if len(apps) != 1:
        ctx.ob(sp.qual, "relationship-skipped-only-when-incomplete", None, sp.loc(lp), "the statement that keeps a trio was not found")
        return
    probs = util.check_loop_conservation(cfg, lp, lambda n: n == cfg.node_containing(apps[0]))
    bad = None
    for kind, path in probs:
        if kind != "skip":
            continue
        from sa.norm import path_atoms

        pa = path_atoms(cfg, path)
        unknown = any(p_ and t_ in ("None is %s.child" % tv, "None is %s.mother" % tv, "None is %s.father" % tv) for t_, p_ in pa) or any(p_ and "None is %s." % tv in t_ for t_, p_ in pa)
        absent = any((not p_) and t_.startswith("%s." % tv) and t_.endswith(" in samples") for t_, p_ in pa) or any(p_ and "not in samples" in t_ or (p_ and " in samples" in t_ and "not " in t_) for t_, p_ in pa)
        if not (unknown or absent):
            bad = path
    ctx.ob(sp.qual, "relationship-skipped-only-when-incomplete", bad is None, sp.loc(lp), "a relationship is passed over only if an individual is unknown or not among the samples to phase" if bad is None else "a relationship of the PED file can be dropped for another reason", cfg.describe_path(bad) if bad else None)


def r7(ctx):
    """A variant phased from the genotypes alone (no read) is still a phase set of its own: the component map must keep every
    accessible position, singletons included (C03.R2 decides that), and every family of a processed chromosome must reach the
    solver -- no family is passed over, however few variants it has left."""
    from rules import c03

    c03.r2(ctx)
    run = ctx.func(PH + ".run_whatshap")
    cfg = ctx.cfg(run)
    fl = [n for n in walk_function(run.node) if isinstance(n, ast.For) and "families" in u(n.iter) and isinstance(n.target, ast.Tuple)]
    ok, where, why, wit = None, run.loc(), "family loop of run_whatshap not found", None
    if len(fl) == 1:
        gs = {cfg.node_containing(c) for c in ctx.prog.calls_in(run.node) if isinstance(c.func, ast.Attribute) and c.func.attr == "get_super_reads" and any(c is x for x in ast.walk(fl[0]))}
        where = run.loc(fl[0])
        if gs:
            probs = util.check_loop_conservation(cfg, fl[0], lambda n: n in gs)
            ok = not probs
            why = "every family of a processed chromosome reaches the solver and its super reads" if ok else ("a family can be passed over without being phased (%s): its variants, also those that could be phased from the genotypes alone, are written unphased" % ("skipped" if probs[0][0] == "skip" else "the loop is left early"))
            wit = cfg.describe_path(probs[0][1]) if probs else None
        else:
            why = "get_super_reads() call not found in the family loop"
    ctx.ob(run.qual, "every-family-reaches-the-solver", ok, where, why, wit)


RULES = [
    ("C05.R1", "role flow father|mother from PED file to GT across three languages", r1),
    ("C05.R2", "missing genotypes and Mendelian conflicts are excluded (set algebra)", r2),
    ("C05.R3", "genetic phasing of homozygous-parent variants on by default", r3),
    ("C05.R4", "transmission bit layout agrees between C++ and Python", r4),
    ("C05.R5", "GT is normalised whether or not the input call was phased", r5),
    ("C05.R6", "every PED relationship among the samples becomes a trio", r6),
    ("C05.R7", "a variant phased without reads keeps its own phase set: complete component map, no family passed over", r7),
]
# instance floors: about 60% of the instances confirmed by hand on the reference tree -- a rule that suddenly matches far fewer
# sites fails the run (exit 2); a clean-up that merges two sites into one does not
FLOORS = {"C05.R1": 9, "C05.R2": 8, "C05.R3": 2, "C05.R4": 4, "C05.R5": 1, "C05.R6": 1, "C05.R7": 5}
