"""C11 -- compare reports the defined error counts (structural clauses)."""
import ast

from sa.model import walk_function, AnalysisError
from sa.norm import u, atoms, guard_atoms, linear
from sa import util
from rules import common

PROPERTY = "C11"
NEEDS_PYX = False
MOD = "whatshap.cli.compare"

EXPLANATION = (
    "Decides, on whatshap/cli/compare.py: R1 operand shape -- every argument of a per-position metric (hamming, switch_encoding, "
    "complement, compute_switch_flips, BedCreator.records) is a haplotype string, never the list of haplotypes (string/list kinds inferred from the code); "
    "R2 orientation consistency -- the test that chooses the orientation of the longest-block agreement vector compares the direct and the complemented "
    "distance of the same two haplotype strings, and the branch taken when the direct distance is smaller marks agreement with ==, the other with !=; "
    "R3 run decomposition -- compute_switch_flips flushes a run of consecutive switch differences as run//2 flips and run%2 switches including the last index, and the "
    "diploid block comparison feeds both the switch count and the decomposition from the same operands (so switches = non-flip switches + 2 x flips by construction); "
    "R4 -- only calls whose phase is present and complete enter a block (none-before-use filter); "
    "R5 -- the list of switch-error records printed to the BED file inside the chromosome loop is re-created in every iteration (no error position is reported twice)."
)
NOT_DECIDED = "Minimality over haplotype correspondences, label independence, the C++ permutation DP (value-level)."
ASSUMPTIONS = ["a haplotype is represented as a str of allele characters, a phasing as a list of such strings (established by the kind inference on compare_pair)"]

STR_METRICS = {"hamming": (0, 1), "switch_encoding": (0,), "complement": (0,), "compute_switch_flips": (0, 1), "records": (0, 1)}


def _param_kinds(ctx):
    """Seed kinds of compare_block's parameters from its call site in compare_pair."""
    cp = ctx.func(MOD + ".compare_pair")
    env, kind = common.infer_str_kinds(cp.node)
    seeds = {}
    for c in ctx.prog.calls_in(cp.node):
        if isinstance(c.func, ast.Name) and c.func.id == "compare_block":
            cb = ctx.func(MOD + ".compare_block")
            params = util.params_of(cb.node)
            for p, a in zip(params, c.args):
                seeds[p] = kind(a)
    return seeds


def r1(ctx):
    seeds = _param_kinds(ctx)
    n_inferred = 0
    for fi in ctx.prog.funcs_in(MOD):
        pk = seeds if fi.qual == MOD + ".compare_block" else {}
        env, kind = common.infer_str_kinds(fi.node, pk)
        for c in ctx.prog.calls_in(fi.node):
            name = c.func.id if isinstance(c.func, ast.Name) else (c.func.attr if isinstance(c.func, ast.Attribute) else None)
            if name not in STR_METRICS:
                continue
            if name == "records" and not (isinstance(c.func, ast.Attribute)):
                continue
            ctx.analysed_functions.add(fi.qual)
            for idx in STR_METRICS[name]:
                if idx >= len(c.args):
                    continue
                a = c.args[idx]
                k = kind(a)
                bad = k in ("list[str]", "iter[list[str]]", "list[?]")
                if k == "str":
                    n_inferred += 1
                ctx.ob(
                    fi.qual,
                    "operand:%s#%d:%s" % (name, idx, u(a)),
                    not bad,
                    fi.loc(c),
                    "argument %d of per-position metric %s is %s (%s)" % (idx, name, u(a), {"str": "a haplotype string", None: "of unknown kind (not a known list)"}.get(k, "the LIST of haplotypes, not a haplotype")),
                )
    ctx.require(n_inferred >= 8, "kind inference established fewer than 8 string operands (%d): the inference no longer understands compare.py" % n_inferred)


def _strip_complement(e):
    if isinstance(e, ast.Call) and isinstance(e.func, ast.Name) and e.func.id == "complement" and len(e.args) == 1:
        return e.args[0], True
    return e, False


def _agreement_comp(stmts, names):
    """Find [.. (p == q) .. for p, q in zip(a, b)] in a branch; returns (op, (a, b)) or None."""
    for s in stmts:
        for n in ast.walk(s):
            if isinstance(n, ast.ListComp) and len(n.generators) == 1:
                g = n.generators[0]
                if isinstance(g.iter, ast.Call) and isinstance(g.iter.func, ast.Name) and g.iter.func.id == "zip" and len(g.iter.args) == 2 and isinstance(g.target, ast.Tuple) and len(g.target.elts) == 2:
                    t = {u(x) for x in g.target.elts}
                    for c in ast.walk(n.elt):
                        if isinstance(c, ast.Compare) and len(c.ops) == 1 and {u(c.left), u(c.comparators[0])} == t:
                            return type(c.ops[0]), tuple(u(a) for a in g.iter.args)
    return None


def r2(ctx):
    fi = ctx.func(MOD + ".compare_pair")
    env, kind = common.infer_str_kinds(fi.node)
    found = 0
    for n in walk_function(fi.node):
        if not isinstance(n, ast.If):
            continue
        tb = _agreement_comp(n.body, None)
        fb = _agreement_comp(n.orelse, None)
        if tb is None or fb is None:
            continue
        # this `if` chooses the orientation of the agreement vector
        found += 1
        test = n.test
        negated = False
        while isinstance(test, ast.UnaryOp) and isinstance(test.op, ast.Not):
            test = test.operand
            negated = not negated
        direct_smaller_true = None
        d_args = None
        why = []
        if isinstance(test, ast.Compare) and len(test.ops) == 1 and isinstance(test.ops[0], (ast.Lt, ast.LtE, ast.Gt, ast.GtE)):
            l, r = test.left, test.comparators[0]
            op = test.ops[0]
            calls = [x for x in (l, r) if isinstance(x, ast.Call) and isinstance(x.func, ast.Name)]
            lc = isinstance(l, ast.Call) and any(_strip_complement(a)[1] for a in l.args)
            rc = isinstance(r, ast.Call) and any(_strip_complement(a)[1] for a in r.args)
            if len(calls) == 2 and lc != rc:
                # form A: metric(x, y) vs metric(x, complement(y))
                direct, comp = (r, l) if lc else (l, r)
                direct_smaller_true = (direct is l) if isinstance(op, (ast.Lt, ast.LtE)) else (direct is r)
                d_args = [u(a) for a in direct.args]
                c_args = [u(_strip_complement(a)[0]) for a in comp.args]
                kinds = [kind(a) for a in direct.args] + [kind(_strip_complement(a)[0]) for a in comp.args]
                if direct.func.id != comp.func.id:
                    why.append("different metrics %s / %s" % (direct.func.id, comp.func.id))
                if d_args != c_args:
                    why.append("direct distance is over (%s), complemented over (%s)" % (", ".join(d_args), ", ".join(c_args)))
                if not all(k == "str" for k in kinds):
                    why.append("operand kinds %s are not all haplotype strings" % kinds)
            else:
                # form B: 2 * metric(x, y) vs number of positions  (complemented distance = n - direct)
                def two_times_metric(e):
                    if isinstance(e, ast.BinOp) and isinstance(e.op, ast.Mult):
                        for c_, o in ((e.left, e.right), (e.right, e.left)):
                            if isinstance(c_, ast.Constant) and c_.value == 2 and isinstance(o, ast.Call) and isinstance(o.func, ast.Name) and o.func.id == "hamming":
                                return o
                    return None

                ml, mr = two_times_metric(l), two_times_metric(r)
                if (ml is None) == (mr is None):
                    why.append("orientation is chosen by %s, which is neither `d(x, y) < d(x, complement(y))` nor `2 * d(x, y) < number of positions`" % u(test))
                else:
                    metric, bound = (ml, r) if ml is not None else (mr, l)
                    direct_smaller_true = (ml is not None) if isinstance(op, (ast.Lt, ast.LtE)) else (mr is not None)
                    d_args = [u(a) for a in metric.args]
                    kinds = [kind(a) for a in metric.args]
                    if not all(k == "str" for k in kinds):
                        why.append("operand kinds %s are not haplotype strings" % kinds)
                    lf = linear(bound)
                    good_bounds = [{"len(block)": 1}] + [{"len(%s)" % a: 1} for a in d_args]
                    if lf not in good_bounds:
                        why.append("the threshold %s is not the number of compared positions (the complemented distance is n - d, so d < n - d means 2 * d < n)" % u(bound))
        else:
            why.append("orientation is chosen by %s, not by an order comparison of distances" % u(test))
        if negated and direct_smaller_true is not None:
            direct_smaller_true = not direct_smaller_true
        ok = not why
        ctx.ob(fi.qual, "orientation-operands", ok, fi.loc(n), "orientation test %s compares the direct with the complemented per-position distance of the same two haplotype strings" % u(test) if ok else "orientation test %s: %s" % (u(test), "; ".join(why)))
        ok2 = direct_smaller_true is not None and d_args is not None
        msg = "orientation criterion not understood, branches not checked"
        if ok2:
            eq_branch, ne_branch = (tb, fb) if direct_smaller_true else (fb, tb)
            ok2 = eq_branch[0] is ast.Eq and ne_branch[0] is ast.NotEq and list(eq_branch[1]) == d_args and list(ne_branch[1]) == d_args
            msg = "branch taken when the direct distance is smaller marks agreement with ==, the other with !=, over the tested strings" if ok2 else "branches do not match the tested orientation (direct-smaller branch uses %s over %s, other uses %s over %s)" % (eq_branch[0].__name__, eq_branch[1], ne_branch[0].__name__, ne_branch[1])
        ctx.ob(fi.qual, "orientation-branches", ok2, fi.loc(n), msg)
    ctx.require(found >= 1, "no `if` choosing between an == and a != agreement vector found in compare_pair")


def r3(ctx):
    fi = ctx.func(MOD + ".compute_switch_flips")
    f = fi.node
    # s0, s1 are the switch encodings of the two parameters
    params = util.params_of(f)
    enc = {}
    for n in walk_function(f):
        if isinstance(n, ast.Assign) and len(n.targets) == 1 and isinstance(n.targets[0], ast.Name) and isinstance(n.value, ast.Call) and isinstance(n.value.func, ast.Name) and n.value.func.id == "switch_encoding" and len(n.value.args) == 1:
            enc[n.targets[0].id] = u(n.value.args[0])
    loops = [n for n in walk_function(f) if isinstance(n, ast.For)]
    ctx.require(len(loops) == 1, "compute_switch_flips no longer has exactly one loop")
    loop = loops[0]
    it = loop.iter
    ok_iter = isinstance(it, ast.Call) and u(it.func) == "enumerate" and isinstance(it.args[0], ast.Call) and u(it.args[0].func) == "zip" and sorted(enc.get(u(a), "?") for a in it.args[0].args) == sorted(params[:2])
    ctx.ob(fi.qual, "iterates-switch-encodings", ok_iter, fi.loc(loop), "the loop enumerates zip of the switch encodings of both parameters" if ok_iter else "loop %s does not enumerate the zipped switch encodings of the two parameters" % u(it))
    if not ok_iter:
        return
    idx, (p0, p1) = u(loop.target.elts[0]), [u(x) for x in loop.target.elts[1].elts]
    s0 = u(it.args[0].args[0])
    # increment
    incs = [n for n in ast.walk(loop) if isinstance(n, ast.AugAssign) and isinstance(n.op, ast.Add) and isinstance(n.value, ast.Constant) and n.value.value == 1 and isinstance(n.target, ast.Name)]
    ctx.require(len(incs) == 1, "run counter increment not found")
    run = incs[0].target.id
    cfg = ctx.cfg(fi)
    ga = guard_atoms(cfg, cfg.node_of(incs[0]))
    differ = ("%s == %s" % tuple(sorted([p0, p1])), False)
    ok = differ in ga
    ctx.ob(fi.qual, "run-extends-on-difference", ok, fi.loc(incs[0]), "%s += 1 exactly under %s != %s" % (run, p0, p1) if ok else "run counter is not incremented under %s != %s" % (p0, p1))
    # flush
    flips = [n for n in ast.walk(loop) if isinstance(n, ast.AugAssign) and isinstance(n.op, ast.Add) and isinstance(n.value, ast.BinOp) and isinstance(n.value.op, ast.FloorDiv) and u(n.value.left) == run and isinstance(n.value.right, ast.Constant) and n.value.right.value == 2]
    sw = [n for n in ast.walk(loop) if isinstance(n, ast.AugAssign) and isinstance(n.op, ast.Add) and isinstance(n.value, ast.BinOp) and isinstance(n.value.op, ast.Mod) and u(n.value.left) == run and isinstance(n.value.right, ast.Constant) and n.value.right.value == 2]
    resets = [n for n in ast.walk(loop) if isinstance(n, ast.Assign) and len(n.targets) == 1 and u(n.targets[0]) == run and isinstance(n.value, ast.Constant) and n.value.value == 0]
    ok = len(flips) == 1 and len(sw) == 1 and len(resets) == 1 and u(flips[0].target).endswith(".flips") and u(sw[0].target).endswith(".switches") and flips[0].parent is sw[0].parent is resets[0].parent
    ctx.ob(fi.qual, "flush-decomposition", ok, fi.loc(flips[0]) if flips else fi.loc(loop), "a finished run adds run//2 to flips and run%2 to switches and resets the run" if ok else "flush does not add run//2 to .flips and run%2 to .switches and reset the run in one block")
    if not ok:
        return
    flush_if = flips[0].parent
    ok = isinstance(flush_if, ast.If)
    cond_ok = False
    if ok:
        t = flush_if.test
        vals = t.values if isinstance(t, ast.BoolOp) and isinstance(t.op, ast.Or) else [t]
        has_equal = any(atoms(v, True) == {("%s == %s" % tuple(sorted([p0, p1])), True)} for v in vals)
        has_last = False
        for v in vals:
            if isinstance(v, ast.Compare) and len(v.ops) == 1 and isinstance(v.ops[0], ast.Eq):
                a, b = linear(v.left), linear(v.comparators[0])
                if a is not None and b is not None:
                    d = {k: a.get(k, 0) - b.get(k, 0) for k in set(a) | set(b)}
                    d = {k: x for k, x in d.items() if x}
                    want = {idx: 1, "": 1, "len(%s)" % s0: -1}
                    want2 = {idx: 1, "": 1, "len(%s)" % u(it.args[0].args[1]): -1}
                    if d in (want, {k: -x for k, x in want.items()}, want2, {k: -x for k, x in want2.items()}):
                        has_last = True
        cond_ok = has_equal and has_last and len(vals) == 2
    ctx.ob(fi.qual, "flush-condition", cond_ok, fi.loc(flush_if), "runs are flushed when the encodings agree again or at the last index" if cond_ok else "flush condition %s is not `last index or %s == %s`" % (u(flush_if.test) if ok else "?", p0, p1))
    # order: the increment precedes the flush in the loop body, so the last index is counted
    ninc, nflush = cfg.node_of(incs[0]), cfg.node_of(flips[0])
    head = cfg.node_of(loop)
    before = cfg.find_path(ninc, nflush, avoid_nodes=[head]) is not None and cfg.find_path(nflush, ninc, avoid_nodes=[head]) is None
    ctx.ob(fi.qual, "increment-before-flush", before, fi.loc(incs[0]), "the run is extended before it is flushed within one iteration" if before else "the flush can run before the increment of the same index")
    # diploid block comparison uses the same operands for both numbers
    cb = ctx.func(MOD + ".compare_block")
    sw_args = csf_args = None
    for n in walk_function(cb.node):
        if isinstance(n, ast.Assign) and len(n.targets) == 1 and isinstance(n.targets[0], ast.Name):
            for c in ast.walk(n.value):
                if isinstance(c, ast.Call) and isinstance(c.func, ast.Name) and c.func.id == "hamming" and all(isinstance(a, ast.Call) and u(a.func) == "switch_encoding" for a in c.args) and n.targets[0].id == "switches":
                    sw_args = [u(a.args[0]) for a in c.args]
                if isinstance(c, ast.Call) and isinstance(c.func, ast.Name) and c.func.id == "compute_switch_flips":
                    csf_args = [u(a) for a in c.args]
    ok = sw_args is not None and csf_args is not None and sw_args == csf_args
    ctx.ob(cb.qual, "same-operands-switches-and-decomposition", ok, cb.loc(), "switch count and switch/flip decomposition are computed from the same haplotype pair %s" % sw_args if ok else "switches use %s, decomposition uses %s" % (sw_args, csf_args))


def r4(ctx):
    fi = ctx.func(MOD + ".compare")
    cfg = ctx.cfg(fi)
    n = 0
    for c in ctx.prog.calls_in(fi.node):
        if not (isinstance(c.func, ast.Attribute) and c.func.attr == "append" and c.args and u(c.args[0]) == "variant_index"):
            continue
        n += 1
        ga = guard_atoms(cfg, cfg.node_containing(c))
        recv = u(c.func.value)
        if recv.startswith("blocks["):
            ok = ("None is phase", False) in ga and any(t.startswith("any(") and "is None" in t and not p for t, p in ga)
            msg = "a call enters a per-file block only if its phase is present and has no missing allele" if ok else "append to %s is not guarded by `phase is not None and no allele is None`" % recv
        else:
            ok = ("any_none", False) in ga
            msg = "a variant enters an intersection block only if no file lacks its phase" if ok else "append to %s is not guarded by `not any_none`" % recv
        ctx.ob(fi.qual, "phase-present:%s" % recv, ok, fi.loc(c), msg)
    ctx.require(n >= 2, "block membership appends not found in compare()")
    # the flag is raised exactly where a phase is missing
    sets = [s for s in walk_function(fi.node) if isinstance(s, ast.Assign) and u(s.targets[0]) == "any_none" and isinstance(s.value, ast.Constant) and s.value.value is True]
    ok = bool(sets) and all(("None is phase", False) not in guard_atoms(cfg, cfg.node_of(s)) for s in sets)
    ctx.ob(fi.qual, "any_none-raised-on-missing-phase", ok, fi.loc(sets[0]) if sets else fi.loc(), "any_none is raised on the branch where a phase is missing" if ok else "any_none is not raised on the missing-phase branch")
    for f2 in (ctx.func(MOD + ".collect_common_variants"), ctx.func(MOD + ".run_compare")):
        for site in common.hom_sites(f2.node):
            ctx.note("het filter %s at %s does not exclude the missing genotype; such calls have no complete phase and are removed by the phase-present filter above, only the informational heterozygous counts include them" % (u(site), f2.loc(site)))


def r5(ctx):
    """Per-chromosome report data written inside the chromosome loop is collected afresh for every chromosome."""
    run = ctx.func(MOD + ".run_compare")
    cfg = ctx.cfg(run)
    loops = [n for n in walk_function(run.node) if isinstance(n, ast.For) and u(n.target) == "chromosome"]
    ctx.require(len(loops) == 1, "chromosome loop of run_compare not found")
    loop = loops[0]
    n = 0
    for inner in ast.walk(loop):
        if not (isinstance(inner, ast.For) and inner is not loop and isinstance(inner.iter, ast.Name)):
            continue
        prints = [c for c in ast.walk(inner) if isinstance(c, ast.Call) and u(c.func) == "print" and any(k.arg == "file" for k in c.keywords)]
        grows = [c for c in ast.walk(loop) if isinstance(c, ast.Call) and isinstance(c.func, ast.Attribute) and c.func.attr in ("append", "extend") and u(c.func.value) == inner.iter.id]
        if not prints or not grows:
            continue
        n += 1
        stale, ndefs = util.stale_path_into_use(cfg, loop, inner.iter.id, cfg.node_of(inner))
        ok = stale is None and ndefs >= 1
        ctx.ob(run.qual, "written-per-chromosome-collected-per-chromosome:%s" % inner.iter.id, ok, run.loc(inner), "`%s` is emptied at the start of every chromosome before it is filled and written to the report file" % inner.iter.id if ok else "`%s` is written out for every chromosome but not emptied in between: the records of earlier chromosomes are reported again (error positions are counted more than once)" % inner.iter.id, cfg.describe_path(stale) if stale else None)
    if n == 0:
        # the other legitimate layout: filled per chromosome, written once after the loop -- then it must NOT be re-created per chromosome
        for inner in walk_function(run.node):
            if isinstance(inner, ast.For) and isinstance(inner.iter, ast.Name) and not any(x is inner for x in ast.walk(loop)):
                prints = [c for c in ast.walk(inner) if isinstance(c, ast.Call) and u(c.func) == "print" and any(k.arg == "file" for k in c.keywords)]
                grows = [c for c in ast.walk(loop) if isinstance(c, ast.Call) and isinstance(c.func, ast.Attribute) and c.func.attr in ("append", "extend") and u(c.func.value) == inner.iter.id]
                if prints and grows:
                    n += 1
                    inside = util.rebinds_inside_loops(run.node, inner.iter.id)
                    ctx.ob(run.qual, "written-once-collected-over-all-chromosomes:%s" % inner.iter.id, not inside, run.loc(inner), "`%s` is filled over all chromosomes and written once" % inner.iter.id if not inside else "`%s` is written after the loop but re-created per chromosome: only the last chromosome is reported" % inner.iter.id)
    ctx.require(n >= 1, "no switch-error report list (filled inside the chromosome loop and printed to a file) found in run_compare")


RULES = [
    ("C11.R1", "operand shape of per-position metrics (haplotype string vs list)", r1),
    ("C11.R2", "orientation test and branches of the longest-block agreement", r2),
    ("C11.R3", "run decomposition switches = s + 2f by construction", r3),
    ("C11.R4", "only present, complete phases enter blocks", r4),
    ("C11.R5", "per-chromosome switch-error records are collected afresh for each chromosome", r5),
]
FLOORS = {"C11.R1": 12, "C11.R2": 2, "C11.R3": 6, "C11.R4": 3, "C11.R5": 1}
