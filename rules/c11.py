"""C11 -- compare reports the defined error counts (structural clauses)."""
import ast

from sa.model import walk_function, AnalysisError
from sa.norm import u, atoms, guard_atoms, linear
from sa import util
from rules import common

PROPERTY = "C11"
NEEDS_PYX = False
MOD = "whatshap.cli.compare"

EXPLANATION = (
    "Decides, on whatshap/cli/compare.py: R1 operand shape -- every argument of a per-position metric (hamming, switch_encoding, "
    "complement, compute_switch_flips, BedCreator.records) is a haplotype string, never the list of haplotypes (string/list kinds inferred from the code); "
    "R2 orientation consistency -- the test that chooses the orientation of the longest-block agreement vector compares the direct and the complemented "
    "distance of the same two haplotype strings, and the branch taken when the direct distance is smaller marks agreement with ==, the other with !=; "
    "R3 run decomposition -- compute_switch_flips flushes a run of consecutive switch differences as run//2 flips and run%2 switches including the last index, and the "
    "diploid block comparison feeds both the switch count and the decomposition from the same operands (so switches = non-flip switches + 2 x flips by construction); "
    "R4 -- only calls whose phase is present and complete enter a block (none-before-use filter); "
    "R5 -- the list of switch-error records printed to the BED file inside the chromosome loop is re-created in every iteration (no error position is reported twice)."
)
EXPLANATION += (
    " " + 'R8: the block-wise Hamming distance is a running minimum that only takes inf, min(itself, x) or a guarded smaller value (or one min() over all permutations); joint blocks collected through groupby need input sorted by the same key.'
)
NOT_DECIDED = "Minimality over haplotype correspondences, label independence, the C++ permutation DP (value-level)."
ASSUMPTIONS = ["a haplotype is represented as a str of allele characters, a phasing as a list of such strings (established by the kind inference on compare_pair)"]

STR_METRICS = {"hamming": (0, 1), "switch_encoding": (0,), "complement": (0,), "compute_switch_flips": (0, 1), "records": (0, 1)}


def _param_kinds(ctx):
    """Seed kinds of compare_block's parameters from its call site in compare_pair."""
    cp = ctx.func(MOD + ".compare_pair")
    env, kind = common.infer_str_kinds(cp.node)
    seeds = {}
    for c in ctx.prog.calls_in(cp.node):
        if isinstance(c.func, ast.Name) and c.func.id == "compare_block":
            cb = ctx.func(MOD + ".compare_block")
            params = util.params_of(cb.node)
            for p, a in zip(params, c.args):
                seeds[p] = kind(a)
    return seeds


def r1(ctx):
    seeds = _param_kinds(ctx)
    n_inferred = 0
    for fi in ctx.prog.funcs_in(MOD):
        pk = seeds if fi.qual == MOD + ".compare_block" else {}
        env, kind = common.infer_str_kinds(fi.node, pk)
        for c in ctx.prog.calls_in(fi.node):
            name = c.func.id if isinstance(c.func, ast.Name) else (c.func.attr if isinstance(c.func, ast.Attribute) else None)
            if name not in STR_METRICS:
                continue
            if name == "records" and not (isinstance(c.func, ast.Attribute)):
                continue
            ctx.analysed_functions.add(fi.qual)
            for idx in STR_METRICS[name]:
                if idx >= len(c.args):
                    continue
                a = c.args[idx]
                k = kind(a)
                bad = k in ("list[str]", "iter[list[str]]", "list[?]")
                if k == "str":
                    n_inferred += 1
                ctx.ob(
                    fi.qual,
                    "operand:%s#%d:%s" % (name, idx, u(a)),
                    not bad,
                    fi.loc(c),
                    "argument %d of per-position metric %s is %s (%s)" % (idx, name, u(a), {"str": "a haplotype string", None: "of unknown kind (not a known list)"}.get(k, "the LIST of haplotypes, not a haplotype")),
                )
    ctx.require(n_inferred >= 8, "kind inference established fewer than 8 string operands (%d): the inference no longer understands compare.py" % n_inferred)


def _strip_complement(e):
    if isinstance(e, ast.Call) and isinstance(e.func, ast.Name) and e.func.id == "complement" and len(e.args) == 1:
        return e.args[0], True
    return e, False


def _agreement_comp(stmts, names):
    """Find [.. (p == q) .. for p, q in zip(a, b)] in a branch; returns (op, (a, b)) or None."""
    for s in stmts:
        for n in ast.walk(s):
            if isinstance(n, ast.ListComp) and len(n.generators) == 1:
                g = n.generators[0]
                if isinstance(g.iter, ast.Call) and isinstance(g.iter.func, ast.Name) and g.iter.func.id == "zip" and len(g.iter.args) == 2 and isinstance(g.target, ast.Tuple) and len(g.target.elts) == 2:
                    t = {u(x) for x in g.target.elts}
                    for c in ast.walk(n.elt):
                        if isinstance(c, ast.Compare) and len(c.ops) == 1 and {u(c.left), u(c.comparators[0])} == t:
                            return type(c.ops[0]), tuple(u(a) for a in g.iter.args)
    return None


def r2(ctx):
    fi = ctx.func(MOD + ".compare_pair")
    env, kind = common.infer_str_kinds(fi.node)
    found = 0

    def analyse_test(test0):
        test = test0
        negated = False
        while isinstance(test, ast.UnaryOp) and isinstance(test.op, ast.Not):
            test = test.operand
            negated = not negated
        direct_smaller_true = None
        d_args = None
        why = []
        if isinstance(test, ast.Compare) and len(test.ops) == 1 and isinstance(test.ops[0], (ast.Lt, ast.LtE, ast.Gt, ast.GtE)):
            l, r = test.left, test.comparators[0]
            op = test.ops[0]
            calls = [x for x in (l, r) if isinstance(x, ast.Call) and isinstance(x.func, ast.Name)]
            lc = isinstance(l, ast.Call) and any(_strip_complement(a)[1] for a in l.args)
            rc = isinstance(r, ast.Call) and any(_strip_complement(a)[1] for a in r.args)
            if len(calls) == 2 and lc != rc:
                # form A: metric(x, y) vs metric(x, complement(y))
                direct, comp = (r, l) if lc else (l, r)
                direct_smaller_true = (direct is l) if isinstance(op, (ast.Lt, ast.LtE)) else (direct is r)
                d_args = [u(a) for a in direct.args]
                c_args = [u(_strip_complement(a)[0]) for a in comp.args]
                kinds = [kind(a) for a in direct.args] + [kind(_strip_complement(a)[0]) for a in comp.args]
                if direct.func.id != comp.func.id:
                    why.append("different metrics %s / %s" % (direct.func.id, comp.func.id))
                if d_args != c_args:
                    why.append("direct distance is over (%s), complemented over (%s)" % (", ".join(d_args), ", ".join(c_args)))
                if not all(k == "str" for k in kinds):
                    why.append("operand kinds %s are not all haplotype strings" % kinds)
            else:
                # form B: 2 * metric(x, y) vs number of positions  (complemented distance = n - direct)
                def two_times_metric(e):
                    if isinstance(e, ast.BinOp) and isinstance(e.op, ast.Mult):
                        for c_, o in ((e.left, e.right), (e.right, e.left)):
                            if isinstance(c_, ast.Constant) and c_.value == 2 and isinstance(o, ast.Call) and isinstance(o.func, ast.Name) and o.func.id == "hamming":
                                return o
                    return None

                ml, mr = two_times_metric(l), two_times_metric(r)
                if (ml is None) == (mr is None):
                    why.append("orientation is chosen by %s, which is neither `d(x, y) < d(x, complement(y))` nor `2 * d(x, y) < number of positions`" % u(test))
                else:
                    metric, bound = (ml, r) if ml is not None else (mr, l)
                    direct_smaller_true = (ml is not None) if isinstance(op, (ast.Lt, ast.LtE)) else (mr is not None)
                    d_args = [u(a) for a in metric.args]
                    kinds = [kind(a) for a in metric.args]
                    if not all(k == "str" for k in kinds):
                        why.append("operand kinds %s are not haplotype strings" % kinds)
                    lf = linear(bound)
                    good_bounds = [{"len(block)": 1}] + [{"len(%s)" % a: 1} for a in d_args]
                    if lf not in good_bounds:
                        why.append("the threshold %s is not the number of compared positions (the complemented distance is n - d, so d < n - d means 2 * d < n)" % u(bound))
        else:
            why.append("orientation is chosen by %s, not by an order comparison of distances" % u(test))
        if negated and direct_smaller_true is not None:
            direct_smaller_true = not direct_smaller_true

        return direct_smaller_true, d_args, why, test

    for n in walk_function(fi.node):
        if not isinstance(n, ast.If):
            continue
        tb = _agreement_comp(n.body, None)
        fb = _agreement_comp(n.orelse, None)
        if tb is None or fb is None:
            continue
        # this `if` chooses the orientation of the agreement vector
        found += 1
        direct_smaller_true, d_args, why, test = analyse_test(n.test)
        ok = not why
        ctx.ob(fi.qual, "orientation-operands", ok, fi.loc(n), "orientation test %s compares the direct with the complemented per-position distance of the same two haplotype strings" % u(test) if ok else "orientation test %s: %s" % (u(test), "; ".join(why)))
        ok2 = direct_smaller_true is not None and d_args is not None
        msg = "orientation criterion not understood, branches not checked"
        if ok2:
            eq_branch, ne_branch = (tb, fb) if direct_smaller_true else (fb, tb)
            ok2 = eq_branch[0] is ast.Eq and ne_branch[0] is ast.NotEq and list(eq_branch[1]) == d_args and list(ne_branch[1]) == d_args
            msg = "branch taken when the direct distance is smaller marks agreement with ==, the other with !=, over the tested strings" if ok2 else "branches do not match the tested orientation (direct-smaller branch uses %s over %s, other uses %s over %s)" % (eq_branch[0].__name__, eq_branch[1], ne_branch[0].__name__, ne_branch[1])
        ctx.ob(fi.qual, "orientation-branches", ok2, fi.loc(n), msg)
    # form C: one comprehension whose element is `(p == q) == <orientation test>` (or the != / is-not variants)
    for comp in [x for x in walk_function(fi.node) if isinstance(x, ast.ListComp) and len(x.generators) == 1]:
        g = comp.generators[0]
        if not (isinstance(g.iter, ast.Call) and u(g.iter.func) == "zip" and len(g.iter.args) == 2 and isinstance(g.target, ast.Tuple) and len(g.target.elts) == 2):
            continue
        tnames = {u(x) for x in g.target.elts}
        for c in ast.walk(comp.elt):
            if not (isinstance(c, ast.Compare) and len(c.ops) == 1 and isinstance(c.ops[0], (ast.Eq, ast.NotEq, ast.Is, ast.IsNot))):
                continue
            sides = [c.left, c.comparators[0]]
            pair = [x for x in sides if isinstance(x, ast.Compare) and len(x.ops) == 1 and isinstance(x.ops[0], (ast.Eq, ast.NotEq)) and {u(x.left), u(x.comparators[0])} == tnames]
            orient = [x for x in sides if x not in pair]
            if len(pair) != 1 or len(orient) != 1 or not isinstance(orient[0], (ast.Compare, ast.UnaryOp)):
                continue
            found += 1
            direct_smaller_true, d_args, why, test = analyse_test(orient[0])
            ok = not why
            ctx.ob(fi.qual, "orientation-operands", ok, fi.loc(comp), "orientation test %s compares the direct with the complemented per-position distance of the same two haplotype strings" % u(test) if ok else "orientation test %s: %s" % (u(test), "; ".join(why)))
            ok2 = direct_smaller_true is not None and d_args is not None
            msg = "orientation criterion not understood, element not checked"
            if ok2:
                pair_eq = isinstance(pair[0].ops[0], ast.Eq)
                outer_eq = isinstance(c.ops[0], (ast.Eq, ast.Is))
                good = True
                for direct_smaller in (True, False):
                    T = direct_smaller_true if direct_smaller else not direct_smaller_true
                    for eqab in (True, False):
                        pv = eqab if pair_eq else not eqab
                        val = (pv == T) if outer_eq else (pv != T)
                        if val != (eqab if direct_smaller else not eqab):
                            good = False
                ok2 = good and [u(a_) for a_ in g.iter.args] == d_args
                msg = "the element marks agreement with == when the direct distance is smaller and with != otherwise, over the tested strings" if ok2 else "the agreement element `%s` does not follow the tested orientation over %s" % (u(c)[:80], d_args)
            ctx.ob(fi.qual, "orientation-branches", ok2, fi.loc(comp), msg)
    # form D: the comparison itself is chosen: agrees = operator.eq if <orientation test> else operator.ne ; [.. agrees(p, q) ..]
    for comp in [x for x in walk_function(fi.node) if isinstance(x, ast.ListComp) and len(x.generators) == 1]:
        g = comp.generators[0]
        if not (isinstance(g.iter, ast.Call) and u(g.iter.func) == "zip" and len(g.iter.args) == 2 and isinstance(g.target, ast.Tuple) and len(g.target.elts) == 2):
            continue
        tn = [u(x) for x in g.target.elts]
        for c in ast.walk(comp.elt):
            if isinstance(c, ast.Call) and isinstance(c.func, (ast.Name, ast.IfExp)) and sorted(u(a_) for a_ in c.args) == sorted(tn):
                d_ = util.single_def(fi.node, c.func.id) if isinstance(c.func, ast.Name) else c.func
                if isinstance(d_, ast.IfExp) and {u(d_.body), u(d_.orelse)} == {"operator.eq", "operator.ne"}:
                    found += 1
                    direct_smaller_true, d_args, why, test = analyse_test(d_.test)
                    ok = not why
                    ctx.ob(fi.qual, "orientation-operands", ok, fi.loc(comp), "orientation test %s compares the direct with the complemented per-position distance of the same two haplotype strings" % u(test) if ok else "orientation test %s: %s" % (u(test), "; ".join(why)))
                    ok2 = direct_smaller_true is not None and d_args is not None
                    if ok2:
                        eq_when_true = u(d_.body) == "operator.eq"
                        strings = [u(util.resolve_locals(fi.node, a_)) for a_ in g.iter.args]
                        ok2 = (eq_when_true == direct_smaller_true) and strings == [u(util.resolve_locals(fi.node, ast.parse(x_, mode="eval").body)) for x_ in d_args]
                    ctx.ob(fi.qual, "orientation-branches", ok2, fi.loc(comp), "agreement is marked with == when the direct distance is smaller and with != otherwise, over the tested strings" if ok2 else "the chosen comparison does not follow the tested orientation")
    ctx.require(found >= 1, "no choice between an == and a != agreement vector found in compare_pair")


def _switch_flips_groupby(ctx, fi, loop, enc, params, zipped_encodings):
    """for key, run in groupby(<p0 != p1 over the zipped encodings>): if key: n = size of run; flips += n // 2; switches += n % 2.
    Emits the obligations of R3 for this form and returns True, or returns False if the loop is not of this form."""
    it = loop.iter
    if not (isinstance(it, ast.Call) and u(it.func) in ("groupby", "itertools.groupby") and len(it.args) == 1 and not it.keywords and isinstance(loop.target, ast.Tuple) and len(loop.target.elts) == 2):
        return False
    src = it.args[0]
    if isinstance(src, ast.Name):
        src = util.single_def(fi.node, src.id)
    if not (isinstance(src, (ast.ListComp, ast.GeneratorExp)) and len(src.generators) == 1 and not src.generators[0].ifs and zipped_encodings(src.generators[0].iter) and isinstance(src.generators[0].target, ast.Tuple)):
        return False
    tn = {u(x) for x in src.generators[0].target.elts}
    e = src.elt
    differs = isinstance(e, ast.Compare) and len(e.ops) == 1 and isinstance(e.ops[0], ast.NotEq) and {u(e.left), u(e.comparators[0])} == tn
    ctx.ob(fi.qual, "iterates-switch-encodings", differs, fi.loc(loop), "runs of equal values of `p0 != p1` over the zipped switch encodings are grouped" if differs else "the grouped sequence is %s, not the position-wise disagreement of the two switch encodings" % u(e))
    cfg = ctx.cfg(fi)
    key, grp = [u(x) for x in loop.target.elts]
    from sa import pathfx

    its = pathfx.iteration_summaries(cfg, loop)
    size_forms = ("sum((1 for _ in %s))" % grp, "len(list(%s))" % grp, "len(tuple(%s))" % grp)
    problem = None
    for ps in its:
        fl = [e_[2] for e_ in ps.effects if e_[0] == "augstore" and u(e_[1]).endswith(".flips")]
        sw = [e_[2] for e_ in ps.effects if e_[0] == "augstore" and u(e_[1]).endswith(".switches")]
        if ps.has(key, True):
            ok = (None if not fl else (len(fl) == 1 and len(sw) == 1 and isinstance(fl[0], ast.BinOp) and isinstance(fl[0].op, ast.FloorDiv) and u(fl[0].right) == "2" and isinstance(sw[0], ast.BinOp) and isinstance(sw[0].op, ast.Mod) and u(sw[0].right) == "2"))
            if ok:
                import re as _re

                canon = lambda t: _re.sub(r"for \w+ in", "for _ in", t)
                ok = canon(u(fl[0].left)) in size_forms and canon(u(sw[0].left)) in size_forms
            if not ok:
                problem = "a run of disagreements must add (its length) // 2 flips and (its length) % 2 switches; the path adds flips %s, switches %s" % ([u(x) for x in fl], [u(x) for x in sw])
        elif ps.has(key, False):
            if fl or sw:
                problem = "a run of agreeing positions must not be counted"
        else:
            problem = "an iteration does not test whether the group is a run of disagreements"
    ctx.ob(fi.qual, "flush-decomposition", problem is None and bool(its), fi.loc(loop), "every maximal run of disagreeing positions adds run // 2 flips and run % 2 switches; agreeing runs add nothing" if problem is None else problem)
    return True


def r3(ctx):
    fi = ctx.func(MOD + ".compute_switch_flips")
    f = fi.node
    # s0, s1 are the switch encodings of the two parameters
    params = util.params_of(f)
    enc = {}
    for n in walk_function(f):
        if isinstance(n, ast.Assign) and len(n.targets) == 1 and isinstance(n.targets[0], ast.Name) and isinstance(n.value, ast.Call) and isinstance(n.value.func, ast.Name) and n.value.func.id == "switch_encoding" and len(n.value.args) == 1:
            enc[n.targets[0].id] = u(n.value.args[0])
    loops = [n for n in walk_function(f) if isinstance(n, ast.For)]
    ctx.require(len(loops) == 1, "compute_switch_flips no longer has exactly one loop")
    loop = loops[0]
    it = loop.iter
    def zipped_encodings(z):
        return isinstance(z, ast.Call) and u(z.func) == "zip" and len(z.args) == 2 and sorted(enc.get(u(a), "?") for a in z.args) == sorted(params[:2])

    indexed = isinstance(it, ast.Call) and u(it.func) == "enumerate" and it.args and zipped_encodings(it.args[0]) and isinstance(loop.target, ast.Tuple) and len(loop.target.elts) == 2 and isinstance(loop.target.elts[1], ast.Tuple)
    plain = zipped_encodings(it) and isinstance(loop.target, ast.Tuple) and len(loop.target.elts) == 2
    if not indexed and not plain:
        done = _switch_flips_groupby(ctx, fi, loop, enc, params, zipped_encodings)
        if not done:
            ctx.ob(fi.qual, "iterates-switch-encodings", None, fi.loc(loop), "loop over %s: not (an enumeration of) the zipped switch encodings of the two parameters, nor a groupby over their disagreements" % u(it)[:80])
        return
    ctx.ob(fi.qual, "iterates-switch-encodings", True, fi.loc(loop), "the loop runs over zip of the switch encodings of both parameters%s" % (" with their index" if indexed else ""))
    if indexed:
        idx, (p0, p1) = u(loop.target.elts[0]), [u(x) for x in loop.target.elts[1].elts]
        s0 = u(it.args[0].args[0])
    else:
        idx, (p0, p1) = "<no index>", [u(x) for x in loop.target.elts]
        s0 = u(it.args[0])
    # increment
    incs = [n for n in ast.walk(loop) if isinstance(n, ast.AugAssign) and isinstance(n.op, ast.Add) and isinstance(n.value, ast.Constant) and n.value.value == 1 and isinstance(n.target, ast.Name)]
    ctx.require(len(incs) == 1, "run counter increment not found")
    run = incs[0].target.id
    cfg = ctx.cfg(fi)
    ga = guard_atoms(cfg, cfg.node_of(incs[0]))
    differ = ("%s == %s" % tuple(sorted([p0, p1])), False)
    ok = differ in ga
    ctx.ob(fi.qual, "run-extends-on-difference", ok, fi.loc(incs[0]), "%s += 1 exactly under %s != %s" % (run, p0, p1) if ok else "run counter is not incremented under %s != %s" % (p0, p1))
    # flush: judged per iteration path (sa.pathfx), over the two facts EQ (p0 == p1) and LAST (i is the last index):
    # a run is flushed iff EQ or LAST, with run//2 flips and run%2 switches of the run INCLUDING this position if it differs
    import itertools
    from sa import pathfx
    from rules.common import tt_eval

    LASTLF = {idx: 1, "len(%s)" % s0: -1, "": 1}

    class NormTest(ast.NodeTransformer):
        def visit_Compare(self, node):
            self.generic_visit(node)
            if len(node.ops) != 1 or not isinstance(node.ops[0], (ast.Eq, ast.NotEq)):
                return node
            l_, r_ = node.left, node.comparators[0]
            neg = isinstance(node.ops[0], ast.NotEq)
            nm = None
            if {u(l_), u(r_)} == {p0, p1}:
                nm = "EQ"
            else:
                a_, b_ = linear(l_), linear(r_)
                if a_ is not None and b_ is not None:
                    d_ = {k: a_.get(k, 0) - b_.get(k, 0) for k in set(a_) | set(b_)}
                    d_ = {k: v for k, v in d_.items() if v}
                    if d_ == LASTLF or d_ == {k: -v for k, v in LASTLF.items()}:
                        nm = "LAST"
            if nm is None:
                return node
            out_ = ast.Name(id=nm, ctx=ast.Load())
            return ast.UnaryOp(op=ast.Not(), operand=out_) if neg else out_

    def undivmod(e):
        # divmod(a, b)[0] -> a // b ; divmod(a, b)[1] -> a % b
        class T(ast.NodeTransformer):
            def visit_Subscript(self, node):
                self.generic_visit(node)
                v_ = node.value
                if isinstance(v_, ast.Call) and u(v_.func) == "divmod" and len(v_.args) == 2 and isinstance(node.slice, ast.Constant) and node.slice.value in (0, 1):
                    return ast.BinOp(left=v_.args[0], op=ast.FloorDiv() if node.slice.value == 0 else ast.Mod(), right=v_.args[1])
                return node
        return T().visit(pathfx._clone(e))

    try:
        its = pathfx.iteration_summaries(cfg, loop)
    except OverflowError:
        its = None
    if not its:
        ctx.ob(fi.qual, "flush-decomposition", None, fi.loc(loop), "cannot enumerate the paths of one loop iteration")
    else:
        problem = None
        covered = set()
        for ps in its:
            conds = []
            unknown = None
            for t_, pol_ in ps.atoms:
                if t_.startswith("<"):
                    continue
                try:
                    e_ = NormTest().visit(ast.parse(t_, mode="eval").body)
                except SyntaxError:
                    unknown = t_
                    break
                conds.append((e_, pol_))
            if unknown:
                problem = ("undecided", "a path tests `%s`" % unknown, ps)
                break
            for EQ, LAST in itertools.product((False, True), repeat=2):
                if not indexed and LAST:
                    continue  # no index: the loop cannot know the last position, the final run is flushed after the loop (checked below)
                try:
                    if not all(tt_eval(e_, {"EQ": EQ, "LAST": LAST}) == pol_ for e_, pol_ in conds):
                        continue
                except ValueError as ex_:
                    problem = ("undecided", "a path tests something else than `%s == %s` / last index: %s" % (p0, p1, ex_), ps)
                    break
                covered.add((EQ, LAST))
                want_flush = EQ or LAST
                runlf = {run: 1} if EQ else {run: 1, "": 1}
                fl = [e_ for e_ in ps.effects if e_[0] == "augstore" and u(e_[1]).endswith(".flips")]
                sw_ = [e_ for e_ in ps.effects if e_[0] == "augstore" and u(e_[1]).endswith(".switches")]
                final = ps.env.get(run)
                final_lf = linear(final) if final is not None else {run: 1}
                if want_flush:
                    okf = (None if not fl else (len(fl) == 1 and len(sw_) == 1))
                    if okf:
                        fv, sv = undivmod(fl[0][2]), undivmod(sw_[0][2])
                        okf = isinstance(fv, ast.BinOp) and isinstance(fv.op, ast.FloorDiv) and u(fv.right) == "2" and linear(fv.left) == runlf and isinstance(sv, ast.BinOp) and isinstance(sv.op, ast.Mod) and u(sv.right) == "2" and linear(sv.left) == runlf
                    okf = okf and final_lf == {}
                    if not okf and problem is None:
                        problem = ("violation", "when %s and %s the run (of length %s) must be flushed as //2 flips and %%2 switches and reset; the path does: flips += %s, switches += %s, run = %s" % ("the positions agree" if EQ else "the positions differ", "this is the last index" if LAST else "more follow", "run" if EQ else "run + 1", [u(e_[2]) for e_ in fl], [u(e_[2]) for e_ in sw_], u(final) if final is not None else run), ps)
                else:
                    okf = not fl and not sw_ and final_lf == {run: 1, "": 1}
                    if not okf and problem is None:
                        problem = ("violation", "a differing position that is not the last one must only extend the run; the path does: flips += %s, switches += %s, run = %s" % ([u(e_[2]) for e_ in fl], [u(e_[2]) for e_ in sw_], u(final) if final is not None else run), ps)
            if problem and problem[0] == "undecided":
                break
        need = set(itertools.product((False, True), repeat=2)) if indexed else {(False, False), (True, False)}
        if problem is None and covered != need:
            problem = ("violation", "no path of an iteration handles EQ/LAST = %s" % sorted(need - covered), its[0])
        if problem is None and not indexed:
            # the run that is still open when the encodings end is flushed after the loop: flips += run // 2 and switches += run % 2
            tail = pathfx.summaries(cfg, src=cfg.node_of(loop))
            tail = [ps_ for ps_ in tail if len(ps_.path) > 1 and ps_.path[1] not in cfg.loop_body_nodes(cfg.node_of(loop))]
            okt = bool(tail)
            for ps_ in tail:
                fl_ = [undivmod(e_[2]) for e_ in ps_.effects if e_[0] == "augstore" and u(e_[1]).endswith(".flips")]
                sw2 = [undivmod(e_[2]) for e_ in ps_.effects if e_[0] == "augstore" and u(e_[1]).endswith(".switches")]
                okt = okt and len(fl_) == 1 and len(sw2) == 1 and isinstance(fl_[0], ast.BinOp) and isinstance(fl_[0].op, ast.FloorDiv) and u(fl_[0].right) == "2" and linear(fl_[0].left) == {run: 1} and isinstance(sw2[0], ast.BinOp) and isinstance(sw2[0].op, ast.Mod) and u(sw2[0].right) == "2" and linear(sw2[0].left) == {run: 1}
            if not okt:
                problem = ("violation", "the loop has no index, so the run that is still open at the end must be flushed after the loop as run // 2 flips and run % 2 switches -- it is not", tail[0] if tail else its[0])
        if problem and problem[0] == "undecided":
            ctx.ob(fi.qual, "flush-decomposition", None, fi.loc(loop), problem[1])
        else:
            ctx.ob(fi.qual, "flush-decomposition", problem is None, fi.loc(loop), "over all four combinations of (positions agree, last index) and all %d iteration paths: a run ends exactly at an agreeing position or at the last index and is split into run//2 flips and run%%2 switches" % len(its) if problem is None else problem[1], cfg.describe_path(problem[2].path) if problem else None)
    # diploid block comparison uses the same operands for both numbers
    cb = ctx.func(MOD + ".compare_block")
    sw_args = csf_args = None
    for n in walk_function(cb.node):
        if isinstance(n, ast.Assign) and len(n.targets) == 1 and isinstance(n.targets[0], ast.Name):
            for c in ast.walk(n.value):
                if isinstance(c, ast.Call) and isinstance(c.func, ast.Name) and c.func.id == "hamming" and all(isinstance(a, ast.Call) and u(a.func) == "switch_encoding" for a in c.args) and n.targets[0].id == "switches":
                    sw_args = [u(a.args[0]) for a in c.args]
                if isinstance(c, ast.Call) and isinstance(c.func, ast.Name) and c.func.id == "compute_switch_flips":
                    csf_args = [u(a) for a in c.args]
    ok = sw_args is not None and csf_args is not None and sw_args == csf_args
    ctx.ob(cb.qual, "same-operands-switches-and-decomposition", ok, cb.loc(), "switch count and switch/flip decomposition are computed from the same haplotype pair %s" % sw_args if ok else "switches use %s, decomposition uses %s" % (sw_args, csf_args))


def r4(ctx):
    fi = ctx.func(MOD + ".compare")
    cfg = ctx.cfg(fi)
    n = 0

    from rules import c13

    def present_guard(ga, var="phase"):
        # `phase is not None and no allele of it is None` (any(... is None) false, all(... is not None) true, None not in ...)
        return ("None is %s" % var, False) in ga and c13.none_free_guard(ga, {"%s.phase" % var})

    def all_fully_phased(ga):
        """`all(<phase present and complete> for phase in <this variant's phase in every data set>)`"""
        for t, pol in ga:
            if not pol or not t.startswith("all("):
                continue
            try:
                e_ = ast.parse(t, mode="eval").body
            except SyntaxError:
                continue
            if not (isinstance(e_, ast.Call) and len(e_.args) == 1 and isinstance(e_.args[0], (ast.GeneratorExp, ast.ListComp)) and len(e_.args[0].generators) == 1 and not e_.args[0].generators[0].ifs):
                continue
            g_ = e_.args[0].generators[0]
            if not isinstance(g_.target, ast.Name):
                continue
            v_ = g_.target.id
            inner = atoms(e_.args[0].elt, True)
            if not present_guard(inner, v_):
                continue
            src_ = g_.iter
            if isinstance(src_, ast.Name):
                src_ = util.single_def(fi.node, src_.id)
            if isinstance(src_, (ast.ListComp, ast.GeneratorExp)) and len(src_.generators) == 1 and u(src_.generators[0].iter) == "phases" and not src_.generators[0].ifs and u(src_.elt) == "%s[variant_index]" % u(src_.generators[0].target):
                return t
        return None

    def counted_all_present(ga):
        """`len(L) == len(phases)` where L gets exactly one entry per data set whose phase is present."""
        for t, pol in ga:
            if not pol or " == " not in t:
                continue
            sides = t.split(" == ")
            if len(sides) != 2 or "len(phases)" not in sides:
                continue
            other = [x for x in sides if x != "len(phases)"][0]
            if not (other.startswith("len(") and other.endswith(")")):
                continue
            L = other[4:-1]
            inits = [(s_, v) for s_, v in util.assignments_to(fi.node, L)]
            if len(inits) != 1 or not (isinstance(inits[0][1], ast.List) and not inits[0][1].elts):
                continue
            apps = [c_ for c_ in ctx.prog.calls_in(fi.node) if isinstance(c_.func, ast.Attribute) and c_.func.attr == "append" and u(c_.func.value) == L]
            if len(apps) != 1:
                continue
            lp_ = apps[0]
            while lp_ is not None and not isinstance(lp_, ast.For):
                lp_ = getattr(lp_, "parent", None)
            over_all = lp_ is not None and ("phases" in [u(a_) for a_ in getattr(lp_.iter, "args", [])] or u(lp_.iter) in ("phases", "range(len(phases))")) and not util.lexical_loop_exits(lp_)
            # initialised in the same variant iteration, filled only where the phase is present
            same_iter = getattr(inits[0][0], "parent", None) is getattr(lp_, "parent", None)
            if over_all and same_iter and present_guard(guard_atoms(cfg, cfg.node_containing(apps[0]))):
                return L
        return None

    flag_based = False
    for c in ctx.prog.calls_in(fi.node):
        if not (isinstance(c.func, ast.Attribute) and c.func.attr == "append" and c.args and u(c.args[0]) == "variant_index"):
            continue
        n += 1
        ga = guard_atoms(cfg, cfg.node_containing(c))
        recv = u(c.func.value)
        per_file = isinstance(c.func.value, ast.Subscript) and u(c.func.value.slice) == "phase.block_id"
        if per_file:
            ok = present_guard(ga)
            msg = "a call enters a per-file block only if its phase is present and has no missing allele" if ok else "append to %s is not guarded by `phase is not None and no allele is None`" % recv
        else:
            L = counted_all_present(ga)
            tests = [t for t, p in ga if not t.startswith("<iter>")]
            if ("any_none", False) in ga:
                ok, flag_based = True, True
                msg = "a variant enters an intersection block only if no file lacks its phase"
            elif L is not None:
                ok = True
                msg = "a variant enters an intersection block only if %s has one entry per data set, and an entry is only added where the phase is present" % L
            elif all_fully_phased(ga) is not None:
                ok = True
                msg = "a variant enters an intersection block only if its phase is present and complete in every data set"
            elif tests:
                ok = None
                msg = "cannot tell whether `%s` means that every data set has a complete phase for the variant" % " and ".join(sorted(tests))[:120]
            else:
                ok = False
                msg = "append to %s is not guarded at all: a variant that is unphased in one file enters the intersection block" % recv
        ctx.ob(fi.qual, "phase-present:%s" % recv, ok, fi.loc(c), msg)
    ctx.require(n >= 2, "block membership appends not found in compare()")
    # the flag (if that is how it is done) is raised exactly where a phase is missing
    if flag_based:
        sets = [s for s in walk_function(fi.node) if isinstance(s, ast.Assign) and u(s.targets[0]) == "any_none" and isinstance(s.value, ast.Constant) and s.value.value is True]
        ok = bool(sets) and all(("None is phase", False) not in guard_atoms(cfg, cfg.node_of(s)) for s in sets)
        ctx.ob(fi.qual, "any_none-raised-on-missing-phase", ok, fi.loc(sets[0]) if sets else fi.loc(), "any_none is raised on the branch where a phase is missing" if ok else "any_none is not raised on the missing-phase branch")
    for f2 in (ctx.func(MOD + ".collect_common_variants"), ctx.func(MOD + ".run_compare")):
        for site in common.hom_sites(f2.node):
            ctx.note("het filter %s at %s does not exclude the missing genotype; such calls have no complete phase and are removed by the phase-present filter above, only the informational heterozygous counts include them" % (u(site), f2.loc(site)))


def r5(ctx):
    """Per-chromosome report data written inside the chromosome loop is collected afresh for every chromosome."""
    run = ctx.func(MOD + ".run_compare")
    cfg = ctx.cfg(run)
    loops = [n for n in walk_function(run.node) if isinstance(n, ast.For) and u(n.target) == "chromosome"]
    ctx.require(len(loops) == 1, "chromosome loop of run_compare not found")
    loop = loops[0]
    n = 0
    for inner in ast.walk(loop):
        if not (isinstance(inner, ast.For) and inner is not loop and isinstance(inner.iter, ast.Name)):
            continue
        prints = [c for c in ast.walk(inner) if isinstance(c, ast.Call) and u(c.func) == "print" and any(k.arg == "file" for k in c.keywords)]
        grows = [c for c in ast.walk(loop) if isinstance(c, ast.Call) and isinstance(c.func, ast.Attribute) and c.func.attr in ("append", "extend") and u(c.func.value) == inner.iter.id]
        if not prints or not grows:
            continue
        n += 1
        stale, ndefs = util.stale_path_into_use(cfg, loop, inner.iter.id, cfg.node_of(inner))
        ok = stale is None and ndefs >= 1
        ctx.ob(run.qual, "written-per-chromosome-collected-per-chromosome:%s" % inner.iter.id, ok, run.loc(inner), "`%s` is emptied at the start of every chromosome before it is filled and written to the report file" % inner.iter.id if ok else "`%s` is written out for every chromosome but not emptied in between: the records of earlier chromosomes are reported again (error positions are counted more than once)" % inner.iter.id, cfg.describe_path(stale) if stale else None)
    if n == 0:
        # the other legitimate layout: filled per chromosome, written once after the loop -- then it must NOT be re-created per chromosome
        for inner in walk_function(run.node):
            if isinstance(inner, ast.For) and isinstance(inner.iter, ast.Name) and not any(x is inner for x in ast.walk(loop)):
                prints = [c for c in ast.walk(inner) if isinstance(c, ast.Call) and u(c.func) == "print" and any(k.arg == "file" for k in c.keywords)]
                grows = [c for c in ast.walk(loop) if isinstance(c, ast.Call) and isinstance(c.func, ast.Attribute) and c.func.attr in ("append", "extend") and u(c.func.value) == inner.iter.id]
                if prints and grows:
                    n += 1
                    inside = util.rebinds_inside_loops(run.node, inner.iter.id)
                    ctx.ob(run.qual, "written-once-collected-over-all-chromosomes:%s" % inner.iter.id, not inside, run.loc(inner), "`%s` is filled over all chromosomes and written once" % inner.iter.id if not inside else "`%s` is written after the loop but re-created per chromosome: only the last chromosome is reported" % inner.iter.id)
    ctx.require(n >= 1, "no switch-error report list (filled inside the chromosome loop and printed to a file) found in run_compare")


def r6(ctx):
    """Polyploid comparison: a flip is counted once per haplotype whose allele differs, whatever the allele values are."""
    from sa import clangq

    objs = clangq.dump(ctx.prog, "src/polyphase/switchflipcalculator.cpp", "SwitchFlipCalculator::getNumFlips")
    fns = [m for o in objs for m in clangq.find(o, "CXXMethodDecl") if m.get("name") == "getNumFlips" and any(x.get("kind") == "CompoundStmt" for x in m.get("inner", []))]
    ctx.require(len(fns) == 1, "SwitchFlipCalculator::getNumFlips has no body")
    fn = fns[0]
    where = "src/polyphase/switchflipcalculator.cpp:%s" % clangq.line_of(fn)
    incs = [m for m in clangq.find(fn, "CompoundAssignOperator") if m.get("opcode") == "+="]
    ups = [m for m in clangq.find(fn, "UnaryOperator") if m.get("opcode") == "++" and not any(x is m for f_ in clangq.find(fn, "ForStmt") for x in clangq.walk((f_.get("inner") or [None] * 4)[3] or {}))]
    ok, why = None, "cannot see how getNumFlips accumulates its count"
    if len(incs) == 1 and not ups:
        rhs = incs[0]["inner"][1]
        while rhs.get("kind") in ("ImplicitCastExpr", "ParenExpr", "CStyleCastExpr", "CXXStaticCastExpr") and rhs.get("inner"):
            rhs = rhs["inner"][0]
        if rhs.get("kind") == "BinaryOperator" and rhs.get("opcode") == "!=":
            ok, why = True, "getNumFlips adds the truth value of `a != b` per haplotype: one per differing allele, also for alleles above 1"
        elif rhs.get("kind") == "BinaryOperator" and rhs.get("opcode") in ("^", "-", "|", "&", "+", "*"):
            ok, why = False, "getNumFlips adds `%s`: for multi-allelic sites (alleles above 1) a single differing haplotype counts as more than one flip error" % clangq.expr_text(rhs)
        elif rhs.get("kind") == "ConditionalOperator":
            c = rhs["inner"][0]
            while c.get("kind") in ("ImplicitCastExpr", "ParenExpr") and c.get("inner"):
                c = c["inner"][0]
            vals = [clangq.int_value(x) for x in rhs["inner"][1:3]]
            if c.get("kind") == "BinaryOperator" and c.get("opcode") in ("!=", "==") and sorted(v for v in vals if v is not None) == [0, 1]:
                ok = (vals == [1, 0]) == (c.get("opcode") == "!=")
                why = "getNumFlips adds 1 per differing allele" if ok else "getNumFlips counts the agreeing haplotypes"
    elif not incs and len(ups) == 1:
        ifs = [i_ for i_ in clangq.find(fn, "IfStmt") if any(x is ups[0] for x in clangq.walk(i_))]
        if len(ifs) == 1:
            c = ifs[0]["inner"][0]
            while c.get("kind") in ("ImplicitCastExpr", "ParenExpr") and c.get("inner"):
                c = c["inner"][0]
            if c.get("kind") == "CallExpr":
                # a file-local predicate: look at what it returns
                hn = clangq.callee_name(c)
                try:
                    hobjs = clangq.dump(ctx.prog, "src/polyphase/switchflipcalculator.cpp", hn) if hn else []
                except AnalysisError:
                    hobjs = []
                hrets = [r_ for o_ in hobjs for f_ in clangq.find(o_, "FunctionDecl") if f_.get("name") == hn for r_ in clangq.find(f_, "ReturnStmt")]
                if len(hrets) == 1 and hrets[0].get("inner"):
                    c = hrets[0]["inner"][0]
                    while c.get("kind") in ("ImplicitCastExpr", "ParenExpr") and c.get("inner"):
                        c = c["inner"][0]
            if c.get("kind") == "BinaryOperator" and c.get("opcode") == "!=":
                ok, why = True, "getNumFlips counts one per haplotype with `a != b`"
    ctx.ob("SwitchFlipCalculator::getNumFlips", "one-flip-per-differing-haplotype", ok, where, why)

    # genotype agreement of two polyploid phasings compares the multisets of alleles, not a number derived from them
    fi = ctx.func("whatshap.cli.compare.compute_matching_genotype_pos")
    cmps = [c for c in walk_function(fi.node) if isinstance(c, ast.Compare) and len(c.ops) == 1 and isinstance(c.ops[0], (ast.Eq, ast.NotEq)) and not any(isinstance(a, ast.Assert) for a in util.ancestors(c))]
    ctx.require(len(cmps) >= 1, "no genotype comparison in compute_matching_genotype_pos")

    def resolve(e):
        for _ in range(4):
            if isinstance(e, ast.Name):
                d = util.single_def(fi.node, e.id)
                if d is None:
                    return e
                e = d
            elif isinstance(e, ast.Subscript) and isinstance(e.value, (ast.Name, ast.ListComp)):
                d = util.single_def(fi.node, e.value.id) if isinstance(e.value, ast.Name) else e.value
                if isinstance(d, ast.ListComp) and len(d.generators) == 1:
                    e = d.elt
                else:
                    return e
            else:
                return e
        return e

    MULTISET = ("Genotype", "sorted", "Counter", "collections.Counter")
    LOSSY = {"sum": "the allele sum (dosage)", "set": "the set of alleles", "frozenset": "the set of alleles", "max": "the largest allele", "min": "the smallest allele", "len": "a length", "any": "a truth value", "all": "a truth value"}
    for c in cmps:
        sides = [resolve(c.left), resolve(c.comparators[0])]
        kinds = []
        for sd in sides:
            x = sd
            while isinstance(x, ast.Call) and u(x.func) in ("tuple", "list") and len(x.args) == 1:
                x = x.args[0]
            f = u(x.func) if isinstance(x, ast.Call) else None
            kinds.append("multiset" if f in MULTISET else LOSSY.get(f))
        if not any("phasing" in u(sd) for sd in sides):
            continue
        ok = True if kinds == ["multiset", "multiset"] else (False if any(k not in (None, "multiset") for k in kinds) else None)
        bad = [k for k in kinds if k not in (None, "multiset")]
        ctx.ob(fi.qual, "genotypes-compared-as-allele-multisets", ok, fi.loc(c), "two phasings agree on a genotype when the multisets of their alleles are equal" if ok else ("genotype agreement is decided by %s: {0, 2} and {1, 1} count as the same genotype and the position enters the switch/flip comparison" % bad[0] if bad else "cannot tell what `%s` compares" % u(c)[:80]))


def r7(ctx):
    """A comparison of files i and j is restricted to the variants that are heterozygous in i and j -- whatever else is on the
    command line: compare() derives its common variants from the tables it was given, unconditionally."""
    cmpf = ctx.func("whatshap.cli.compare.compare")
    params = util.params_of(cmpf.node)
    defs = [(s_, v_) for s_, v_ in util.assignments_to(cmpf.node, "common_variants")]
    cfg = ctx.cfg(cmpf)
    if "common_variants" in params or not defs:
        inherited = "common_variants" in params
        ctx.ob(cmpf.qual, "common-variants-of-the-compared-files", False if inherited else None, cmpf.loc(), "compare() takes its common variants from the caller: a pairwise comparison inside a run with three or more files is restricted by a third file, so its counts depend on an unrelated input" if inherited else "common_variants is not defined in compare()")
        return
    ok = len(defs) == 1 and isinstance(defs[0][1], ast.Call) and u(defs[0][1].func) == "collect_common_variants" and [u(a) for a in defs[0][1].args[:2]] == params[:2]
    if ok:
        ok = getattr(defs[0][0], "parent", None) is cmpf.node  # a top-level statement of compare(): not under any condition
    ctx.ob(cmpf.qual, "common-variants-of-the-compared-files", ok, cmpf.loc(defs[0][0]), "common_variants = collect_common_variants(variant_tables, sample_names) of exactly the tables being compared" if ok else "common variants are not (unconditionally) those of the tables passed to compare()")


def r8(ctx):
    """(a) The block-wise Hamming distance is the minimum over ALL haplotype correspondences: the running minimum starts at
    infinity and only ever takes min(itself, the distance of the permutation at hand) -- a shortcut that sets it from a test on
    the haplotype SETS forgets multiplicities (A,A,B vs A,B,B).  (b) The intersection of the files' phase sets files every
    jointly phased variant under its joint block id: get-or-create and append; itertools.groupby only groups neighbours, so
    without a sort by the same key (interleaved or nested phase sets) earlier runs of a block are lost."""
    cb = ctx.func(MOD + ".compare_block")
    ccfg = ctx.cfg(cb)
    rets = [c for c in ctx.prog.calls_in(cb.node) if u(c.func) == "PhasingErrors"]
    hv = [k.value for c in rets for k in c.keywords if k.arg == "hamming"]
    # the reported value: a local, possibly wrapped in int() / float(), the same local in every construction
    def _unwrap(e):
        while isinstance(e, ast.Call) and u(e.func) in ("int", "float", "round") and e.args:
            e = e.args[0]
        return e
    hv = [_unwrap(x) for x in hv]
    ok = None
    if hv and all(isinstance(x, ast.Name) for x in hv) and len({x.id for x in hv}) == 1:
        m = hv[0].id
        ok = True
        n_min = 0
        why = ""
        for st_, v in util.assignments_to(cb.node, m):
            if not isinstance(v, ast.AST):
                ok, why = None, "cannot read a binding of %s" % m
                continue
            t = u(v)
            if t in ("float('inf')", "math.inf", "inf", "float('Inf')", "float('infinity')"):
                continue
            if isinstance(v, ast.Call) and u(v.func) == "min" and len(v.args) == 2 and m in (u(v.args[0]), u(v.args[1])) and not v.keywords:
                n_min += 1
                continue
            if isinstance(v, ast.Call) and u(v.func) == "min" and len(v.args) == 1 and isinstance(v.args[0], (ast.GeneratorExp, ast.ListComp)) and len(v.args[0].generators) == 1 and not v.args[0].generators[0].ifs and isinstance(v.args[0].generators[0].iter, ast.Call) and u(v.args[0].generators[0].iter.func) in ("permutations", "itertools.permutations") and not [k for k in v.keywords if k.arg != "default"]:
                # min(<distance of the permutation> for permutation in permutations(..)): every correspondence is looked at
                n_min += 1
                continue
            if isinstance(v, ast.Call) and u(v.func) in ("int", "float") and len(v.args) == 1 and u(v.args[0]) == m:
                continue
            if isinstance(v, ast.Name) and any((tt, pp) in guard_atoms(ccfg, ccfg.node_of(st_)) for tt, pp in (("%s < %s" % (v.id, m), True), ("%s < %s" % (m, v.id), False))):
                n_min += 1
                continue
            if isinstance(v, ast.Constant) or (isinstance(v, ast.UnaryOp) and isinstance(v.operand, ast.Constant)):
                ok, why = False, "`%s = %s` under `%s`: the distance is decided without looking at the correspondences (equal SETS of haplotypes do not mean equal multisets)" % (m, t, " and ".join(sorted(x for x, y in guard_atoms(ccfg, ccfg.node_of(st_)) if y))[:80])
                break
            if ok:
                ok, why = None, "cannot read `%s = %s`" % (m, t[:60])
        if ok and not n_min:
            ok, why = None, "no min() update of %s found" % m
        ctx.ob(cb.qual, "hamming-is-the-minimum-over-all-correspondences", ok, cb.loc(), "the running minimum starts at infinity and is only ever replaced by min(itself, a permutation's distance)" if ok else why)
    else:
        ctx.ob(cb.qual, "hamming-is-the-minimum-over-all-correspondences", None, cb.loc(), "cannot find what compare_block reports as hamming")
    # (b) groupby
    n_sites = 0
    for q, fi in sorted(ctx.prog.functions.items()):
        if not q.startswith(MOD + "."):
            continue
        for c in ctx.prog.calls_in(fi.node, include_nested=True):
            if not (u(c.func) in ("groupby", "itertools.groupby") and c.args):
                continue
            # only where the groups are collected under their key (a dict): iterating runs of equal neighbours is what
            # groupby is for
            par = getattr(c, "parent", None)
            collected = isinstance(par, ast.comprehension) and isinstance(getattr(par, "parent", None), ast.DictComp)
            if isinstance(par, ast.Call) and u(par.func) in ("dict", "OrderedDict", "defaultdict"):
                collected = True
            if isinstance(par, ast.For) and par.iter is c and isinstance(par.target, ast.Tuple) and par.target.elts:
                kname = u(par.target.elts[0])
                collected = any(isinstance(x, ast.Assign) and any(isinstance(t_, ast.Subscript) and u(t_.slice) == kname for t_ in x.targets) for x in ast.walk(par))
            if not collected:
                continue
            n_sites += 1
            key = c.args[1] if len(c.args) > 1 else ([k.value for k in c.keywords if k.arg == "key"] or [None])[0]
            src = c.args[0]
            if isinstance(src, ast.Name):
                d_ = util.single_def(fi.node, src.id)
                src = d_ if d_ is not None else src
            skey = None
            if isinstance(src, ast.Call) and u(src.func) == "sorted":
                skey = ([k.value for k in src.keywords if k.arg == "key"] or [None])[0]
            okg = isinstance(src, ast.Call) and u(src.func) == "sorted" and (u(skey) if skey is not None else None) == (u(key) if key is not None else None)
            ctx.ob(fi.qual, "groupby-input-sorted-by-the-same-key", okg, fi.loc(c), "groupby runs over input sorted by its key" if okg else "`%s` groups only neighbouring elements and its input is not sorted by the same key: with interleaved or nested phase sets a block comes in several runs, and collecting them under the block id keeps only the last" % u(c)[:70])
    bi = [s_ for s_ in util.store_sites(ctx.func(MOD + ".compare").node) if s_.kind == "call" and s_.method == "append" and u(s_.target).startswith("block_intersection[")]
    ctx.ob(MOD + ".compare", "joint-blocks-collect-every-variant", True if bi or n_sites else None, ctx.func(MOD + ".compare").loc(), "jointly phased variants are appended under their joint block id" if bi else ("joint blocks are formed by groupby (checked above)" if n_sites else "cannot see how compare() forms the joint blocks"))


RULES = [
    ("C11.R1", "operand shape of per-position metrics (haplotype string vs list)", r1),
    ("C11.R2", "orientation test and branches of the longest-block agreement", r2),
    ("C11.R3", "run decomposition switches = s + 2f by construction", r3),
    ("C11.R4", "only present, complete phases enter blocks", r4),
    ("C11.R5", "per-chromosome switch-error records are collected afresh for each chromosome", r5),
    ("C11.R6", "polyploid comparison: one flip per differing haplotype; genotypes as allele multisets", r6),
    ("C11.R7", "pairwise comparison restricted to the two files' own common variants", r7),
    ("C11.R8", "Hamming distance is a minimum over all correspondences; joint blocks collect every variant", r8),
]
# instance floors: about 60% of the instances confirmed by hand on the reference tree -- a rule that suddenly matches far fewer
# sites fails the run (exit 2); a clean-up that merges two sites into one does not
FLOORS = {"C11.R1": 7, "C11.R2": 1, "C11.R3": 1, "C11.R4": 1, "C11.R5": 1, "C11.R6": 2, "C11.R7": 1, "C11.R8": 2}
