"""C20 -- auxiliary reports cover the whole run and agree with the VCF (structural clauses)."""
import ast

from sa.model import walk_function, AnalysisError
from sa.norm import u, atoms, guard_atoms, linear, names_in
from sa import util

PROPERTY = "C20"
NEEDS_PYX = False
PH = "whatshap.cli.phase"

EXPLANATION = (
    "Decides: R1 truncating-open-in-loop -- no open(path, 'w') / xopen(path, 'w') whose path is loop-invariant is executed inside a loop over chromosomes, families "
    "or samples, either lexically or through resolved calls (such a file keeps only the last iteration); report files are opened once before the loop; "
    "R2 read list -- ReadList.write receives the very read set the solver was built from and that solver's partitioning, is reached for every family when a read list "
    "is requested, and prints the phase set of the read's first variant + 1; R3 genotype changes -- each listed change is exactly a GT store of a different genotype "
    "(store and list entry are paired under the `!=` test), the list returned by the writer is what is printed for every processed chromosome, a non-empty list asserts "
    "--distrust-genotypes, and positions are printed 1-based; R4 recombinations -- find_recombination pairs only consecutive members of one component, and the "
    "transmission value is decoded per trio in trios order."
)
EXPLANATION += (
    " " + 'R4 also: the loop over phase sets in find_recombination has no break / return and skips a block only on a test of its own length.'
)
NOT_DECIDED = "Which recombination events are reported (value-level); the contents of the VCF itself (C04)."
ASSUMPTIONS = ["a loop over vcf_reader / families / samples runs more than once for multi-chromosome / multi-family input"]

TRUNC = ("w", "wt", "wb", "w+", "wb+", "w+b", "x")


def open_sites(fnode):
    out = []
    for c in walk_function(fnode, include_nested=False):
        if not isinstance(c, ast.Call):
            continue
        name = c.func.id if isinstance(c.func, ast.Name) else (c.func.attr if isinstance(c.func, ast.Attribute) else None)
        if name not in ("open", "xopen"):
            continue
        if isinstance(c.func, ast.Attribute) and u(c.func.value) not in ("io", "gzip", "bz2", "builtins", "xopen"):
            continue
        mode = None
        if len(c.args) > 1:
            mode = c.args[1]
        for k in c.keywords:
            if k.arg == "mode":
                mode = k.value
        if mode is None or not isinstance(mode, ast.Constant) or not isinstance(mode.value, str):
            continue
        if not mode.value.startswith(("w", "x")):
            continue
        if not c.args:
            continue
        if u(c.args[0]) in ("os.devnull", "'/dev/null'"):
            continue  # the null device keeps nothing; truncating it loses nothing
        out.append(c)
    return out


def enclosing_loops(node, stop):
    """Lexically enclosing loops (For/While/comprehension generators) of ``node`` inside function ``stop``.
    Returns list of (loop node, set of target names)."""
    out = []
    child = node
    n = getattr(node, "parent", None)
    while n is not None and n is not stop:
        if isinstance(n, (ast.For, ast.AsyncFor)) and child not in [n.iter]:
            if child in n.body or _contains(n.body, child):
                out.append((n, {x.id for x in ast.walk(n.target) if isinstance(x, ast.Name)}))
        elif isinstance(n, ast.While):
            if _contains(n.body, child):
                out.append((n, set()))
        elif isinstance(n, (ast.ListComp, ast.SetComp, ast.GeneratorExp, ast.DictComp)):
            tg = set()
            for g in n.generators:
                tg |= {x.id for x in ast.walk(g.target) if isinstance(x, ast.Name)}
            # the first iterable is evaluated outside the comprehension's loop
            if child is not n.generators[0].iter:
                out.append((n, tg))
        child = n
        n = getattr(n, "parent", None)
    return out


def _contains(stmts, node):
    for s in stmts:
        if s is node:
            return True
        for x in ast.walk(s):
            if x is node:
                return True
    return False


def loop_variant_names(loop, targets, fnode):
    """Names that change per iteration: the loop targets and everything assigned inside the loop body."""
    names = set(targets)
    body = loop.body if hasattr(loop, "body") else []
    for s in body:
        for x in ast.walk(s):
            if isinstance(x, ast.Name) and isinstance(x.ctx, ast.Store):
                names.add(x.id)
    return names


def reverse_calls(ctx):
    idx = getattr(ctx.prog, "_rev_calls", None)
    if idx is not None:
        return idx
    idx = {}
    for fi in ctx.prog.functions.values():
        if fi.module.kind != "py":
            continue
        for c in ctx.prog.calls_in(fi.node):
            targets, how = ctx.prog.resolve_call(c, fi)
            if how in ("local", "import", "self", "class"):
                for t in targets:
                    idx.setdefault(t.qual, []).append((fi, c))
            # context managers: Cls(...) constructed -> its __enter__ runs where it is entered
            if how == "class" and targets:
                cls = targets[0].cls
                if cls is not None and "__enter__" in cls.methods:
                    idx.setdefault(cls.methods["__enter__"].qual, []).append((fi, c))
    ctx.prog._rev_calls = idx
    return idx


def _loop_desc(loop):
    if isinstance(loop, (ast.For, ast.AsyncFor)):
        return "for %s in %s" % (u(loop.target), u(loop.iter))
    if isinstance(loop, ast.While):
        return "while %s" % u(loop.test)
    return u(loop)[:60]


def check_open_site(ctx, fi, site, rev, depth=3):
    """Return (ok, message, witness)."""
    path = site.args[0]

    def walk(fi_, node, pathexpr, trail, depth_):
        # lexical loops in this function
        for loop, targets in enclosing_loops(node, fi_.node):
            variant = loop_variant_names(loop, targets, fi_.node)
            if pathexpr is None or not (names_in(pathexpr) & variant):
                return (False, trail + ["%s: inside loop `%s` with a loop-invariant path %s" % (fi_.loc(loop), _loop_desc(loop), u(pathexpr) if pathexpr is not None else "(constant)")])
        if depth_ == 0:
            return (True, trail)
        params = util.params_of(fi_.node)
        pnames = names_in(pathexpr) if pathexpr is not None else set()
        # self._x set from a constructor parameter
        selfattrs = {a.attr for a in ast.walk(pathexpr) if isinstance(a, ast.Attribute) and u(a.value) == "self"} if pathexpr is not None else set()
        for caller, call in rev.get(fi_.qual, []):
            # bind the path to the caller's argument expression(s)
            bound = None
            used = [p for p in params if p in pnames]
            if used or selfattrs:
                args = {}
                cparams = params[1:] if params and params[0] in ("self", "cls") and not isinstance(call.func, ast.Attribute) else params
                if params and params[0] in ("self", "cls"):
                    cparams = params[1:]
                # constructor call for __enter__: map __init__ params
                if fi_.name == "__enter__" and fi_.cls is not None and "__init__" in fi_.cls.methods:
                    cparams = util.params_of(fi_.cls.methods["__init__"].node)[1:]
                for p, a in zip(cparams, call.args):
                    args[p] = a
                for k in call.keywords:
                    if k.arg:
                        args[k.arg] = k.value
                exprs = [args[p] for p in used if p in args]
                if selfattrs and fi_.cls is not None and "__init__" in fi_.cls.methods:
                    init = fi_.cls.methods["__init__"].node
                    for s in walk_function(init):
                        if isinstance(s, ast.Assign) and isinstance(s.targets[0], ast.Attribute) and s.targets[0].attr in selfattrs and isinstance(s.value, ast.Name) and s.value.id in args:
                            exprs.append(args[s.value.id])
                if exprs:
                    bound = ast.Tuple(elts=exprs, ctx=ast.Load())
            r = walk(caller, call, bound, trail + ["%s: called from %s" % (caller.loc(call), caller.qual)], depth_ - 1)
            if not r[0]:
                return r
        return (True, trail)

    ok, trail = walk(fi, site, path, [], depth)
    return ok, trail


def _list_file_opens(ctx):
    """open()/xopen() calls of the phase command whose path is one of the auxiliary list files (a *_list* name), any mode"""
    out = []
    for q, fi in sorted(ctx.prog.functions.items()):
        if not q.startswith(PH + "."):
            continue
        for c in walk_function(fi.node, include_nested=False):
            if not isinstance(c, ast.Call):
                continue
            name = c.func.id if isinstance(c.func, ast.Name) else (c.func.attr if isinstance(c.func, ast.Attribute) else None)
            if name not in ("open", "xopen") or not c.args or "list" not in u(c.args[0]):
                continue
            mode = c.args[1] if len(c.args) > 1 else None
            for k in c.keywords:
                if k.arg == "mode":
                    mode = k.value
            out.append((fi, c, mode))
    return out


def r1(ctx):
    # a list file describes this run only: it is opened for (truncating) writing, never for appending or updating
    lf = _list_file_opens(ctx)
    for fi, c, mode in lf:
        m = mode.value if isinstance(mode, ast.Constant) and isinstance(mode.value, str) else None
        okm = None if m is None else m.startswith(("w", "x"))
        ctx.ob(fi.qual, "list-file-starts-empty:%s" % u(c.args[0])[:40], okm, fi.loc(c), "%s is opened with mode %r: the list holds the entries of this run only" % (u(c.args[0]), m) if okm else ("%s is opened with mode %r: entries of earlier runs that named the same file stay in the list, which then reports changes that are not differences between this run's input and output" % (u(c.args[0]), m) if okm is False else "cannot read the mode %s is opened with" % u(c.args[0])))
    ctx.require(len(lf) >= 2, "fewer than two list files are opened by the phase command (scan broken)")
    rev = reverse_calls(ctx)
    n = 0
    for fi in sorted(ctx.prog.functions.values(), key=lambda f: f.qual):
        if fi.module.kind != "py":
            continue
        if ctx.tier == "quick" and not fi.module.name.startswith("whatshap.cli"):
            continue
        for site in open_sites(fi.node):
            n += 1
            ctx.analysed_functions.add(fi.qual)
            ctx.analysed_files.add(fi.module.relpath)
            ok, trail = check_open_site(ctx, fi, site, rev)
            ctx.ob(fi.qual, "open:%s" % u(site)[:80], ok, fi.loc(site), "%s is executed at most once per path value" % u(site)[:80] if ok else "%s truncates its file on every iteration: only the last chromosome/family/sample survives" % u(site)[:80], trail if not ok else None)
    # the report files of phase are opened before the chromosome loop
    run = ctx.func(PH + ".run_whatshap")
    cfg = ctx.cfg(run)
    loops = chromosome_loops(ctx, run)
    for name in ("gtchange_list_filename", "recombination_list_filename", "read_list_filename"):
        opens = [c for c in ctx.prog.calls_in(run.node) if name in {x.id for x in ast.walk(c) if isinstance(x, ast.Name)} and (u(c.func) in ("open", "ReadList") or u(c.func).endswith("enter_context"))]
        ok = bool(opens) and any(not enclosing_loops(c, run.node) for c in opens)
        ctx.ob(run.qual, "opened-once:%s" % name, ok, run.loc(opens[0]) if opens else run.loc(), "the file for %s is opened in run_whatshap outside every loop" % name if ok else "no open of %s outside the loops of run_whatshap" % name)


def chromosome_loops(ctx, run):
    loops = [n for n in walk_function(run.node) if isinstance(n, ast.For) and "vcf_reader" in u(n.iter)]
    ctx.require(len(loops) == 1, "chromosome loop over vcf_reader not found in run_whatshap")
    return loops


SOLVERS = ("HapChatCore", "PedMecHeuristic", "PedigreeDPTable")


def r2(ctx):
    run = ctx.func(PH + ".run_whatshap")
    cfg = ctx.cfg(run)
    calls = [c for c in ctx.prog.calls_in(run.node) if isinstance(c.func, ast.Attribute) and c.func.attr == "write" and u(c.func.value) == "read_list"]
    ctx.require(len(calls) == 1, "read_list.write(...) call not found in run_whatshap")
    c = calls[0]
    reads = u(c.args[0])
    solver_calls = [s for s in ctx.prog.calls_in(run.node) if isinstance(s.func, ast.Name) and s.func.id in SOLVERS]
    ctx.require(len(solver_calls) == 3, "expected the three solver constructions in run_whatshap")
    ok = all(s.args and u(s.args[0]) == reads for s in solver_calls)
    defs = [v for _, v in util.assignments_to(run.node, reads)]
    ok_def = (None if not defs else (len(defs) == 1 and isinstance(defs[0], ast.Call) and u(defs[0].func) == "merge_readsets"))
    ctx.ob(run.qual, "listed-reads-are-the-solvers-reads", ok and ok_def, run.loc(c), "the read list gets `%s`, the single merge_readsets(...) value every solver is constructed from" % reads if ok and ok_def else "the read list's read set `%s` is not the one value all solvers are constructed from" % reads)
    part = c.args[1]
    okp = isinstance(part, ast.Call) and isinstance(part.func, ast.Attribute) and part.func.attr == "get_optimal_partitioning"
    solver_var = u(part.func.value) if okp else None
    sdefs = [v for _, v in util.assignments_to(run.node, solver_var)] if okp else []
    okp = okp and len(sdefs) == 3 and all(isinstance(v, ast.Call) and u(v.func) in SOLVERS for v in sdefs)
    ctx.ob(run.qual, "partition-from-the-same-solver", okp, run.loc(c), "the haplotype column is %s of the solver built from those reads" % u(part) if okp else "the partitioning passed to the read list does not come from the solver object")
    # reached once per family
    fam_loops = [n for n in walk_function(run.node) if isinstance(n, ast.For) and "families" in u(n.iter)]
    ctx.require(len(fam_loops) == 1, "family loop not found in run_whatshap")
    fl = fam_loops[0]
    cn = cfg.node_containing(c)
    head = cfg.node_of(fl)
    free = set()
    for t in cfg.g.nodes:
        if cfg.kind(t) == "test" and atoms(cfg.ast(t), False) == {("read_list", False)}:
            for s in cfg.succ(t, "false"):
                free.add((t, s))
    bad = None
    for b in cfg.succ(head, "loop"):
        p = cfg.find_path(b, head, avoid_nodes=[cn], avoid_edges=free)
        if p is not None:
            bad = [head] + p
    inside = any(l is fl for l, _ in enclosing_loops(c, run.node))
    ctx.ob(run.qual, "written-for-every-family", bad is None and inside, run.loc(c), "read_list.write is reached on every path through the family loop when a read list is requested" if bad is None and inside else "a family can be processed without its reads being listed", cfg.describe_path(bad))
    # the phase set printed is that of the read's first variant, 1-based
    w = ctx.func(PH + ".ReadList.write")
    comp = util.single_def(w.node, "components")
    loops = [n for n in walk_function(w.node) if isinstance(n, ast.For)]
    rd = u(loops[0].target.elts[0]) if loops and isinstance(loops[0].target, ast.Tuple) else "read"
    # the printed row, element by element, with locals resolved (`phaseset`, `first_position`, a `row` tuple, ...)
    prs = [p_ for p_ in ctx.prog.calls_in(w.node) if u(p_.func) == "print" and any(p_ is x for l_ in loops for x in ast.walk(l_))]
    row = util.printed_shape(w.node, prs[0]) if len(prs) == 1 else None
    keep = ("haplotype", rd, "numeric_id_to_name")
    cells = [u(util.expand_single_defs(w.node, e_[1], keep=keep)) for e_ in row] if row is not None and all(e_[0] == "one" for e_ in row) else None
    want_ps = "sample_components[numeric_id_to_name[%s.sample_id]][%s[0].position] + 1" % (rd, rd)
    if cells is None:
        ctx.ob(w.qual, "phase-set-of-first-variant-plus-1", None, w.loc(), "cannot read the row that ReadList.write prints")
    else:
        pcs = [c_ for c_ in cells if c_.startswith("sample_components[")]
        okps = (None if not pcs else (len(pcs) == 1 and pcs[0].endswith("][%s[0].position] + 1" % rd)))
        ctx.ob(w.qual, "phase-set-of-first-variant-plus-1", okps, w.loc(prs[0]), "the row carries components[read[0].position] + 1 as phase set" if okps else "no cell of the printed row is components[%s[0].position] + 1: %s" % (rd, cells))
        inv = util.single_def(w.node, "numeric_id_to_name")
        okc = (None if not pcs else (len(pcs) == 1 and pcs[0].startswith("sample_components[numeric_id_to_name[%s.sample_id]][" % rd) and inv is not None and u(inv) == "numeric_sample_ids.inverse_mapping()"))
        ctx.ob(w.qual, "components-of-the-reads-sample", okc, w.loc(), "components are those of the read's own sample" if okc else "components are not looked up by the read's own sample")
    okp = cells is not None and "haplotype" in cells and any(c_.startswith("sample_components[") for c_ in cells) and any(k.arg == "file" and u(k.value) == "self._file" for k in prs[0].keywords)
    ctx.ob(w.qual, "row-printed-to-the-list", okp, w.loc(prs[0]) if prs else w.loc(), "one row per read with its phase set and haplotype goes to the list file" if okp else "ReadList.write does not print phase set / haplotype to self._file")
    for c_ in cells or []:
        if c_.endswith(".position") or ".position +" in c_ or ".position -" in c_:
            lf = linear(ast.parse(c_, mode="eval").body)
            ok1 = lf is not None and lf.get("", 0) == 1
            ctx.ob(w.qual, "one-based:%s" % c_, ok1, w.loc(prs[0]), "%s is printed 1-based" % c_ if ok1 else "%s prints a 0-based position" % c_)


def r3(ctx):
    W = "whatshap.vcf.PhasedVcfWriter.write"
    w = ctx.func(W)
    cfg = ctx.cfg(w)
    gt_stores = [s for s in util.store_sites(w.node) if s.kind == "subscript" and util.const_key(s.target) == "GT"]
    from sa import pathfx

    class _Get(ast.NodeTransformer):
        # T.get(k) and T[k] name the same table entry
        def visit_Call(self, node):
            self.generic_visit(node)
            if isinstance(node.func, ast.Attribute) and node.func.attr == "get" and len(node.args) == 1 and not node.keywords:
                return ast.Subscript(value=node.func.value, slice=node.args[0], ctx=ast.Load())
            return node

    def _c(e):
        return _Get().visit(pathfx._clone(e))

    for s in gt_stores:
        # along every path from the head of the per-sample loop through the store (locals replaced by what they hold
        # on that path): the stored alleles are those of a table entry NEW, the path has established that the entry
        # exists and differs from the genotype OLD the call had, and exactly one GenotypeChange(sample, chromosome, .,
        # OLD, NEW) is appended next to it
        block = s.stmt.parent
        appends = [c for c in ast.walk(block) if isinstance(c, ast.Call) and isinstance(c.func, ast.Attribute) and c.func.attr == "append" and u(c.func.value) == "genotype_changes" and c.args and isinstance(c.args[0], ast.Call) and u(c.args[0].func) == "GenotypeChange"]
        ok = len(appends) == 1
        same_block = ok and _stmt_parent(appends[0]) is block
        detail = ""
        if ok and same_block:
            lp_ = s.stmt
            while lp_ is not None and not isinstance(lp_, ast.For):
                lp_ = getattr(lp_, "parent", None)
            astmt = appends[0]
            while not isinstance(astmt, ast.stmt):
                astmt = astmt.parent
            last = astmt if astmt.lineno > s.stmt.lineno else s.stmt
            try:
                sums = pathfx.summaries(cfg, src=cfg.node_of(lp_), dst=cfg.node_of(last)) if lp_ is not None else []
            except OverflowError:
                sums = []
            if not sums:
                ctx.ob(w.qual, "gt-change-listed:%s" % u(s.target), None, w.loc(s.stmt), "cannot enumerate the paths from the per-sample loop to the GT store")
                continue
            loopvar = u(lp_.target)
            for ps in sums:
                st = [e for e in ps.effects if e[0] == "store" and e[3] is s.stmt]
                ap = [e for e in ps.effects if e[0] == "call" and e[3] is astmt]
                if len(st) != 1 or len(ap) != 1 or not ap[0][1].args or len(ap[0][1].args[0].args) < 5:
                    ok = False
                    detail = " (the store and the append are not on one path)"
                    break
                gc = ap[0][1].args[0]
                callv = u(st[0][1].value)
                OLD = "genotype_code(%s['GT'])" % callv
                newgt, oldgt, stored = u(_c(gc.args[4])), u(_c(gc.args[3])), u(_c(st[0][2]))
                ga = {(u(_c(ast.parse(t, mode="eval").body)) if not t.startswith("<") else t, p_) for t, p_ in ps.atoms}
                # the old genotype is read from the call before the store overwrites it
                raw = appends[0].args[0].args[3]
                if isinstance(raw, ast.Name):
                    old_before = all(d.lineno < s.stmt.lineno for d, v in util.assignments_to(w.node, raw.id))
                else:
                    old_before = astmt.lineno < s.stmt.lineno
                differs = any((not p_) and t in ("%s == %s" % (newgt, OLD), "%s == %s" % (OLD, newgt)) for t, p_ in ga)
                ne = _c(gc.args[4])
                while isinstance(ne, ast.Attribute):
                    ne = ne.value  # a field of the record kept in the table
                inmap = isinstance(ne, ast.Subscript) and (("%s in %s" % (u(ne.slice), u(ne.value)), True) in ga or ("%s is None" % u(ne), False) in ga or ("None is %s" % u(ne), False) in ga)
                same_sample = u(gc.args[0]) == loopvar and callv == "record.samples[%s]" % loopvar
                ok = ("%s.as_vector()" % newgt) in stored and oldgt == OLD and old_before and differs and inmap and same_sample and u(gc.args[1]) == "chromosome"
                detail = " (old=%s new=%s stored=%s%s%s)" % (oldgt, newgt, stored, "" if differs else "; no `new != old` guard", "" if inmap else "; not guarded by membership in the table")
                if not same_sample:
                    detail += " (entry names sample `%s`, the store goes to %s)" % (u(gc.args[0]), callv)
                if not ok:
                    break
        ctx.ob(w.qual, "gt-change-listed:%s" % u(s.target), ok and same_block, w.loc(s.stmt), "the GT store is guarded by `new != old` and paired with one GenotypeChange(sample, chromosome, variant, old, new) entry%s" % detail if ok and same_block else "a GT store is not paired with exactly one GenotypeChange entry under the `!=` guard%s" % detail)
    appends_all = [c for c in ctx.prog.calls_in(w.node) if isinstance(c.func, ast.Attribute) and c.func.attr == "append" and u(c.func.value) == "genotype_changes"]
    for a in appends_all:
        blk = _stmt_parent(a)
        has_store = any(st.stmt.parent is blk for st in gt_stores)
        ctx.ob(w.qual, "listed-change-is-a-store", has_store, w.loc(a), "every listed change sits next to the GT store it reports" if has_store else "a genotype change is listed without a GT store in the same block")
    rets = [n for n in walk_function(w.node) if isinstance(n, ast.Return)]
    ok = (None if not rets else (len(rets) == 1 and u(rets[0].value) == "genotype_changes"))
    ctx.ob(w.qual, "returns-the-changes", ok, w.loc(rets[0]) if rets else w.loc(), "write returns genotype_changes" if ok else "write does not return genotype_changes")
    # run_whatshap: the returned list is printed for every phased chromosome; non-empty => distrust
    run = ctx.func(PH + ".run_whatshap")
    rcfg = ctx.cfg(run)
    loop = chromosome_loops(ctx, run)[0]
    assigns = [n for n in walk_function(loop) if isinstance(n, ast.Assign) and isinstance(n.value, ast.Call) and u(n.value.func) == "vcf_writer.write" and isinstance(n.targets[0], ast.Name)]
    ctx.require(len(assigns) == 1, "assignment of vcf_writer.write(...)'s result not found")
    var = assigns[0].targets[0].id
    asserts = [n for n in walk_function(loop) if isinstance(n, ast.Assert) and u(n.test) == "distrust_genotypes"]
    ok = False
    if asserts:
        ga = guard_atoms(rcfg, rcfg.node_of(asserts[0]))
        ok = (var, True) in ga
    ctx.ob(run.qual, "changes-imply-distrust", ok, run.loc(asserts[0]) if asserts else run.loc(loop), "`assert distrust_genotypes` runs whenever the writer reports a change" if ok else "no `assert distrust_genotypes` under `if %s`" % var)
    wc = [c for c in ctx.prog.calls_in(loop) if isinstance(c.func, ast.Name) and c.func.id == "write_changed_genotypes"]
    ctx.require(len(wc) == 1, "write_changed_genotypes call not found in the chromosome loop")
    okarg = len(wc[0].args) >= 2 and u(wc[0].args[1]) == var
    an, wn, head = rcfg.node_of(assigns[0]), rcfg.node_containing(wc[0]), rcfg.node_of(loop)
    free = set()
    for t in rcfg.g.nodes:
        if rcfg.kind(t) == "test":
            at = atoms(rcfg.ast(t), False)
            if len(at) == 1 and list(at)[0][0].startswith("gtchange_list") and not list(at)[0][1]:
                for s in rcfg.succ(t, "false"):
                    free.add((t, s))
    p = rcfg.find_path(an, head, avoid_nodes=[wn], avoid_edges=free)
    ctx.ob(run.qual, "changes-printed-for-every-chromosome", okarg and p is None, run.loc(wc[0]), "the list returned for a chromosome is handed to write_changed_genotypes on every path when the list is requested" if okarg and p is None else "the changes of a chromosome can be dropped before they are listed", rcfg.describe_path(p))
    wcf = ctx.func(PH + ".write_changed_genotypes")
    for p_, cells_ in util.row_writes(wcf.node):
        for a in [util.resolve_locals(wcf.node, e_[1]) for e_ in (cells_ or []) if e_[0] == "one"]:
            if u(a).endswith(".position") or ".position " in u(a):
                lf = linear(a)
                ok1 = lf is not None and lf.get("", 0) == 1
                ctx.ob(wcf.qual, "one-based:%s" % u(a), ok1, wcf.loc(p_), "%s is printed 1-based like POS in the VCF" % u(a) if ok1 else "%s prints the internal 0-based position: the entry does not match POS of the VCF record" % u(a))


def decode_layout(e):
    """RecombinationEvent(p1, p2, X % 2, Y % 2, X // 2, Y // 2, ...) with X, Y two different expressions: (ok, text)."""
    args = e.args[2:6]
    txt = [u(x) for x in args]
    ok = (None if not args else (len(args) == 4 and all(isinstance(x, ast.BinOp) and isinstance(x.right, ast.Constant) and x.right.value == 2 for x in args)))
    if ok:
        ok = isinstance(args[0].op, ast.Mod) and isinstance(args[1].op, ast.Mod) and isinstance(args[2].op, ast.FloorDiv) and isinstance(args[3].op, ast.FloorDiv)
        X, Y = u(args[0].left), u(args[1].left)
        ok = ok and u(args[2].left) == X and u(args[3].left) == Y and X != Y
    return ok, txt


def _shifted_zip_targets(loop):
    """for (a...), (b...) in zip(S[k:], S[k+1:]): returns (S text, k, first target, second target) or None."""
    it = loop.iter
    if not (isinstance(it, ast.Call) and u(it.func) == "zip" and len(it.args) == 2 and isinstance(loop.target, ast.Tuple) and len(loop.target.elts) == 2):
        return None
    s0, s1 = it.args
    if not (isinstance(s0, ast.Subscript) and isinstance(s1, ast.Subscript) and isinstance(s0.slice, ast.Slice) and isinstance(s1.slice, ast.Slice) and u(s0.value) == u(s1.value)):
        return None
    if s0.slice.upper is not None or s1.slice.upper is not None or s0.slice.step is not None or s1.slice.step is not None:
        # zip(S[k:-1], S[k+1:]) is fine as well
        if not (s1.slice.upper is None and isinstance(s0.slice.upper, ast.UnaryOp)):
            return None
    k0 = s0.slice.lower.value if isinstance(s0.slice.lower, ast.Constant) else (0 if s0.slice.lower is None else None)
    k1 = s1.slice.lower.value if isinstance(s1.slice.lower, ast.Constant) else None
    if k0 is None or k1 is None or k1 != k0 + 1:
        return None
    return u(s0.value), k0, loop.target.elts[0], loop.target.elts[1]


def _grouping_loop(fr):
    """(loop, position variable, ascending) of the loop that files every position under its component:
    for p, c in components.items(): blocks[c].append(p)   |   for p in components / sorted(components): blocks[components[p]].append(p)"""
    comps = util.params_of(fr.node)[1]
    for n in walk_function(fr.node):
        if not isinstance(n, ast.For) or util.lexical_loop_exits(n) or any(isinstance(x, ast.Continue) for x in ast.walk(n)):
            continue
        it = u(n.iter)
        if it in ("%s.items()" % comps, "sorted(%s.items())" % comps) and isinstance(n.target, ast.Tuple) and len(n.target.elts) == 2:
            pos, key = u(n.target.elts[0]), u(n.target.elts[1])
        elif it in (comps, "%s.keys()" % comps, "sorted(%s)" % comps, "sorted(%s.keys())" % comps) and isinstance(n.target, ast.Name):
            pos, key = n.target.id, "%s[%s]" % (comps, n.target.id)
        else:
            continue
        apps = [c for c in ast.walk(n) if isinstance(c, ast.Call) and isinstance(c.func, ast.Attribute) and c.func.attr == "append" and isinstance(c.func.value, ast.Subscript) and u(c.func.value.value) == "blocks" and u(c.func.value.slice) == key and len(c.args) == 1 and u(c.args[0]) == pos]
        if len(apps) == 1 and len(n.body) == 1:
            return n, pos, it.startswith("sorted(")
    return None


def _block_sorted(fr, outer, blockvar):
    """Is the block in ascending position order where its members are paired: sorted in the block loop, or filled in
    ascending order of the positions in the first place"""
    if any(isinstance(c, ast.Call) and u(c.func) == "%s.sort" % blockvar and not c.args and not c.keywords for c in ast.walk(outer)):
        return True
    g = _grouping_loop(fr)
    other_fill = [c for c in ast.walk(fr.node) if isinstance(c, ast.Call) and isinstance(c.func, ast.Attribute) and c.func.attr in ("append", "insert", "extend") and isinstance(c.func.value, ast.Subscript) and u(c.func.value.value) == "blocks"]
    return g is not None and g[2] and len(other_fill) == 1 and u(outer.iter) in ("blocks.values()", "blocks.items()")


def _event_pairing(fr, loops, e):
    """(ok, explanation) for the two position arguments of the event, or None if the shape is not understood."""
    a0, a1 = e.args[0], e.args[1]
    # form A: block[i - 1], block[i] of the sorted block
    if isinstance(a0, ast.Subscript) and isinstance(a1, ast.Subscript) and u(a0.value) == u(a1.value) and linear(a0.slice) is not None and linear(a1.slice) is not None:
        d = {k: linear(a1.slice).get(k, 0) - linear(a0.slice).get(k, 0) for k in set(linear(a1.slice)) | set(linear(a0.slice))}
        ok = {k: v for k, v in d.items() if v} == {"": 1}
        blockvar = u(a0.value)
        outer = [n for n in loops if _blocks_loop_var(n) == blockvar]
        srt = _block_sorted(fr, outer[0], blockvar) if len(outer) == 1 else False
        return ok and len(outer) == 1 and srt, "indices differ by one in the sorted block" if ok and srt else "indices %s / %s of %s%s" % (u(a0.slice), u(a1.slice), blockvar, "" if srt else " (block not sorted)")
    # form B0: a flat n-ary zip in which the two names run over S[k:] and S[k+1:] of the same sorted block S
    if isinstance(a0, ast.Name) and isinstance(a1, ast.Name):
        for lp in loops:
            it = lp.iter
            if isinstance(it, ast.Call) and u(it.func) == "zip" and isinstance(lp.target, ast.Tuple) and len(lp.target.elts) == len(it.args) and all(isinstance(t, ast.Name) for t in lp.target.elts):
                names_ = [t.id for t in lp.target.elts]
                if a0.id in names_ and a1.id in names_:
                    s0, s1 = it.args[names_.index(a0.id)], it.args[names_.index(a1.id)]
                    if isinstance(s0, ast.Subscript) and isinstance(s1, ast.Subscript) and isinstance(s0.slice, ast.Slice) and isinstance(s1.slice, ast.Slice) and u(s0.value) == u(s1.value):
                        k0 = s0.slice.lower.value if isinstance(s0.slice.lower, ast.Constant) else (0 if s0.slice.lower is None else None)
                        k1 = s1.slice.lower.value if isinstance(s1.slice.lower, ast.Constant) else None
                        blockvar = u(s0.value)
                        outer = [n for n in loops if _blocks_loop_var(n) == blockvar]
                        if k0 is not None and k1 is not None and len(outer) == 1 and s1.slice.upper is None:
                            srt = any(isinstance(c, ast.Call) and u(c.func) == "%s.sort" % blockvar for c in ast.walk(outer[0]))
                            ok = k1 == k0 + 1 and srt
                            return ok, "neighbours of %s taken by zip(%s[%d:], %s[%d:], ...)" % (blockvar, blockvar, k0, blockvar, k1)
    # form B: neighbours taken by zip(S[k:], S[k+1:]) where S is the sorted block or is built element by element from it
    if isinstance(a0, ast.Name) and isinstance(a1, ast.Name):
        for lp in loops:
            z = _shifted_zip_targets(lp)
            if z is None:
                continue
            S, k, t0, t1 = z

            def pos_of(t, name):
                if isinstance(t, ast.Name) and t.id == name:
                    return -1
                if isinstance(t, ast.Tuple):
                    for i_, x_ in enumerate(t.elts):
                        if isinstance(x_, ast.Name) and x_.id == name:
                            return i_
                return None

            i0, i1 = pos_of(t0, a0.id), pos_of(t1, a1.id)
            if i0 is None or i1 is None or i0 != i1:
                continue
            # which block is S (derived from)?
            blockvars = [_blocks_loop_var(n) for n in loops if _blocks_loop_var(n) is not None]
            src_block = None
            if S in blockvars and i0 == -1:
                src_block = S
            else:
                d_ = util.single_def(fr.node, S)
                if isinstance(d_, ast.ListComp) and len(d_.generators) == 1 and not d_.generators[0].ifs and isinstance(d_.elt, ast.Tuple) and 0 <= i0 < len(d_.elt.elts):
                    g_ = d_.generators[0]
                    comp_src = g_.iter
                    elem = d_.elt.elts[i0]
                    # the i0-th field of each record is the block element itself
                    if isinstance(comp_src, ast.Name) and comp_src.id in blockvars and u(elem) == u(g_.target):
                        src_block = comp_src.id
                    elif isinstance(comp_src, ast.Call) and u(comp_src.func) == "zip" and comp_src.args and isinstance(comp_src.args[0], ast.Name) and comp_src.args[0].id in blockvars and isinstance(g_.target, ast.Tuple) and u(elem) == u(g_.target.elts[0]):
                        src_block = comp_src.args[0].id
            if src_block is None:
                return None
            outer = [n for n in loops if _blocks_loop_var(n) == src_block]
            srt = _block_sorted(fr, outer[0], src_block) if len(outer) == 1 else False
            return srt, "neighbours of %s taken by zip(%s[%d:], %s[%d:])" % (src_block, S, k, S, k + 1) if srt else "block %s is not sorted" % src_block
    return None


def _derived_from_position_index(fr, idx):
    """Is this subscript index a position_to_index lookup, directly or through a list of such lookups over a block?"""
    if isinstance(idx, ast.Subscript) and u(idx.value) == "position_to_index":
        return True
    if isinstance(idx, ast.Name):
        # a comprehension / loop variable running over L (or zip(..., L, ...)) with L = [position_to_index[p] for p in block]
        n = idx
        while n is not None and not isinstance(n, (ast.FunctionDef,)):
            n = getattr(n, "parent", None)
            gens = []
            if isinstance(n, (ast.ListComp, ast.GeneratorExp, ast.SetComp, ast.DictComp)):
                gens = [(g.target, g.iter) for g in n.generators]
            elif isinstance(n, ast.For):
                gens = [(n.target, n.iter)]
            for tgt, it in gens:
                cands = []
                if isinstance(tgt, ast.Name) and tgt.id == idx.id:
                    cands = [it]
                elif isinstance(tgt, ast.Tuple) and isinstance(it, ast.Call) and u(it.func) == "zip":
                    for k_, x_ in enumerate(tgt.elts):
                        if isinstance(x_, ast.Name) and x_.id == idx.id and k_ < len(it.args):
                            cands = [it.args[k_]]
                for c_ in cands:
                    d_ = util.single_def(fr.node, c_.id) if isinstance(c_, ast.Name) else c_
                    if isinstance(d_, (ast.ListComp, ast.GeneratorExp)) and isinstance(d_.elt, ast.Subscript) and u(d_.elt.value) == "position_to_index":
                        return True
    return False


def check_block_lookup(ctx, fr):
    params = util.params_of(fr.node)
    tv, comps, positions, costs = params[:4]
    p2i = util.single_def(fr.node, "position_to_index")
    ok = p2i is not None and isinstance(p2i, ast.DictComp) and u(p2i.generators[0].iter) == "enumerate(%s)" % positions and [u(t) for t in p2i.generators[0].target.elts] == [u(p2i.value), u(p2i.key)]
    ctx.ob(fr.qual, "position-index-map", ok, fr.loc(), "position_to_index maps each accessible position to its index" if ok else "position_to_index is not {pos: i for i, pos in enumerate(positions)}")
    # every read of the transmission vector / the recombination costs goes through position_to_index (components interleave:
    # a contiguous slice or a running index would attribute values to the wrong positions)
    for src in (tv, costs):
        subs = [x for x in walk_function(fr.node) if isinstance(x, ast.Subscript) and isinstance(x.value, ast.Name) and x.value.id == src and isinstance(x.ctx, ast.Load)]
        other = [x for x in walk_function(fr.node) if isinstance(x, ast.Name) and x.id == src and isinstance(x.ctx, ast.Load) and not isinstance(getattr(x, "parent", None), ast.Subscript) and not (isinstance(getattr(x, "parent", None), ast.Call) and u(x.parent.func) == "len")]
        bad = [x for x in subs if not _derived_from_position_index(fr, x.slice)]
        ok = bool(subs) and not bad and not other
        ctx.ob(fr.qual, "per-position-lookup:%s" % src, ok, fr.loc(bad[0]) if bad else fr.loc(), "every read of %s is %s[position_to_index[p]] for a position p of the block" % (src, src) if ok else "%s is read as %s: not a per-position lookup through position_to_index, so with interleaved phase sets values are attributed to the wrong positions" % (src, u(bad[0]) if bad else (u(other[0].parent)[:60] if other else "?")))


def _stmt_parent(node):
    n = node
    while n is not None and not isinstance(n, ast.stmt):
        n = n.parent
    return n.parent if n is not None else None


def _blocks_loop_var(n):
    """Name bound to one block in `for _, b in blocks.items()` / `for b in blocks.values()`, else None."""
    if not isinstance(n, ast.For):
        return None
    if u(n.iter) == "blocks.items()" and isinstance(n.target, ast.Tuple) and len(n.target.elts) == 2:
        return u(n.target.elts[1])
    if u(n.iter) == "blocks.values()" and isinstance(n.target, ast.Name):
        return n.target.id
    return None


def _nearest_loop(n):
    p = getattr(n, "parent", None)
    while p is not None and not isinstance(p, (ast.For, ast.While)):
        p = getattr(p, "parent", None)
    return p


def trio_digit_decoding(ctx):
    """(wr, ok): does write_recombination_list give trio t digit t of the base-4 expansion of every transmission value?
    ok is True / False / None (a form this reader does not understand)."""
    wr = ctx.func(PH + ".write_recombination_list")
    ok = False
    form_a = False
    for n in walk_function(wr.node):
        if isinstance(n, ast.For) and u(n.iter) == "trios":
            body = [u(s) for s in n.body]
            mods = [s for s in n.body if isinstance(s, ast.Assign) and isinstance(s.value, ast.BinOp) and isinstance(s.value.op, ast.Mod) and u(s.value.right) == "4"]
            divs = [s for s in n.body if isinstance(s, ast.Assign) and isinstance(s.value, ast.BinOp) and isinstance(s.value.op, ast.FloorDiv) and u(s.value.right) == "4"]
            if mods or divs:
                form_a = True
            if mods and divs and u(mods[0].value.left) == u(divs[0].targets[0]) == u(divs[0].value.left) and n.body.index(mods[0]) < n.body.index(divs[0]):
                ok = any(isinstance(c, ast.Call) and isinstance(c.func, ast.Attribute) and c.func.attr == "append" and ("%s.child" % u(n.target)) in u(c.func.value) and u(c.args[0]) == u(mods[0].targets[0]) for c in ast.walk(n))
    if not ok and not form_a:
        # second form: one pass per trio with a running digit weight 1, 4, 16, ...:  child gets (value // weight) % 4 for every value
        ok = None
        wcfg = ctx.cfg(wr)

        def over_vec_of(dg):
            comp = dg
            while comp is not None and not isinstance(comp, (ast.ListComp, ast.GeneratorExp, ast.For)):
                comp = getattr(comp, "parent", None)
            return isinstance(comp, (ast.ListComp, ast.GeneratorExp)) and len(comp.generators) == 1 and u(comp.generators[0].iter) == "transmission_vector" and u(comp.generators[0].target) == u(dg.left.left) and u(comp.elt) == u(dg) and not comp.generators[0].ifs

        def to_child_of(dg, trio_target):
            st_ = util.stmt_of(dg)
            return isinstance(st_, ast.Expr) and isinstance(st_.value, ast.Call) and isinstance(st_.value.func, ast.Attribute) and st_.value.func.attr == "extend" and ("%s.child" % u(trio_target)) in u(st_.value.func.value)
        for n in walk_function(wr.node):
            if not (isinstance(n, ast.For) and u(n.iter) in ("trios", "enumerate(trios)")):
                continue
            digs = [x for x in ast.walk(n) if isinstance(x, ast.BinOp) and isinstance(x.op, ast.Mod) and u(x.right) == "4" and isinstance(x.left, ast.BinOp) and isinstance(x.left.op, ast.FloorDiv) and isinstance(x.left.right, (ast.Name, ast.BinOp, ast.Call))]
            if len(digs) != 1:
                continue
            if not isinstance(digs[0].left.right, ast.Name):
                # the weight written in place: (value // 4 ** index) % 4 with the index of the trio
                if u(n.iter) == "enumerate(trios)" and isinstance(n.target, ast.Tuple) and len(n.target.elts) == 2 and u(digs[0].left.right) in ("4 ** %s" % u(n.target.elts[0]), "pow(4, %s)" % u(n.target.elts[0])):
                    ok = bool(over_vec_of(digs[0]) and to_child_of(digs[0], n.target.elts[1])) and not util.lexical_loop_exits(n) and not any(isinstance(x, ast.Continue) for x in ast.walk(n))
                continue
            wname = digs[0].left.right.id
            inits = [v_ for s_, v_ in util.assignments_to(wr.node, wname) if isinstance(v_, ast.AST)]
            mults = [x for x in ast.walk(n) if isinstance(x, ast.AugAssign) and u(x.target) == wname]
            stores_w = [x for x in ast.walk(wr.node) if isinstance(x, ast.Name) and x.id == wname and isinstance(x.ctx, ast.Store)]
            st_ = util.stmt_of(digs[0])
            # the value decoded is an element of the transmission vector, the digit goes to the list of this trio's child
            comp = digs[0]
            while comp is not None and not isinstance(comp, (ast.ListComp, ast.GeneratorExp, ast.For)):
                comp = getattr(comp, "parent", None)
            over_vec = isinstance(comp, (ast.ListComp, ast.GeneratorExp)) and len(comp.generators) == 1 and u(comp.generators[0].iter) == "transmission_vector" and u(comp.generators[0].target) == u(digs[0].left.left) and u(comp.elt) == u(digs[0]) and not comp.generators[0].ifs
            to_child = isinstance(st_, ast.Expr) and isinstance(st_.value, ast.Call) and isinstance(st_.value.func, ast.Attribute) and st_.value.func.attr == "extend" and ("%s.child" % u(n.target)) in u(st_.value.func.value)
            trio_t = n.target.elts[1] if u(n.iter) == "enumerate(trios)" and isinstance(n.target, ast.Tuple) and len(n.target.elts) == 2 else n.target
            if u(n.iter) == "enumerate(trios)" and isinstance(n.target, ast.Tuple):
                # third form: the weight is 4 ** (index of the trio)
                ix = u(n.target.elts[0])
                pw = len(inits) == 1 and u(inits[0]) in ("4 ** %s" % ix, "pow(4, %s)" % ix) and not mults and any(x is util.stmt_of(inits[0]) for x in n.body)
                if pw and over_vec_of(digs[0]) and to_child_of(digs[0], trio_t):
                    ok = not util.lexical_loop_exits(n) and not any(isinstance(x, ast.Continue) for x in ast.walk(n))
                elif pw:
                    ok = False
                continue
            form = len(inits) == 1 and u(inits[0]) == "1" and len(mults) == 1 and isinstance(mults[0].op, ast.Mult) and u(mults[0].value) == "4" and len(stores_w) == 2 and mults[0] in n.body
            if form and over_vec and to_child:
                # weight is multiplied after it was used, once per trio, and the loop has no continue/break that could skip it
                after = wcfg.find_path(wcfg.node_of(mults[0]), wcfg.node_of(st_), avoid_nodes=[wcfg.node_of(n)]) is None
                ok = after and not util.lexical_loop_exits(n) and not any(isinstance(x, ast.Continue) for x in ast.walk(n))
            elif form:
                ok = False
    return wr, ok


def r4(ctx):
    fr = ctx.func("whatshap.pedigree.find_recombination")
    # blocks[block_id] collects positions of ONE component; events pair block[i-1], block[i]
    loops = [n for n in walk_function(fr.node) if isinstance(n, ast.For)]
    block_loops = [n for n in loops if ".items()" in u(n.iter) and isinstance(n.target, ast.Tuple)]
    comp_loop = [n for n in block_loops if u(n.iter) == "%s.items()" % util.params_of(fr.node)[1]]
    ok = (None if not comp_loop else (len(comp_loop) == 1 and any(isinstance(c, ast.Call) and isinstance(c.func, ast.Attribute) and c.func.attr == "append" and u(c.func.value) == "blocks[%s]" % u(comp_loop[0].target.elts[1]) and u(c.args[0]) == u(comp_loop[0].target.elts[0]) for c in ast.walk(comp_loop[0]))))
    if not comp_loop and _grouping_loop(fr) is not None:
        ok = True
    ctx.ob(fr.qual, "blocks-group-by-component", ok, fr.loc(), "positions are grouped by their component id" if ok else "positions are not grouped as blocks[component].append(position)")
    evs = [c for c in ctx.prog.calls_in(fr.node) if u(c.func) == "RecombinationEvent"]
    ctx.require(len(evs) == 1, "RecombinationEvent construction not found")
    e = evs[0]
    a0, a1 = e.args[0], e.args[1]
    pairing = _event_pairing(fr, loops, e)
    if pairing is None:
        ctx.ob(fr.qual, "event-between-consecutive-members-of-one-set", None, fr.loc(e), "cannot tell how the two event positions %s, %s relate to the block" % (u(a0), u(a1)))
    else:
        okp, why = pairing
        ctx.ob(fr.qual, "event-between-consecutive-members-of-one-set", okp, fr.loc(e), "an event is reported between %s and %s, consecutive members of one sorted component (%s)" % (u(a0), u(a1), why) if okp else "event positions %s, %s are not consecutive members of one sorted component (%s)" % (u(a0), u(a1), why))
    # every phase set is examined: the block loop is only left when all blocks were seen, a block is skipped only when it is too short
    for lp_ in [n for n in loops if _blocks_loop_var(n) is not None]:
        fcfg = ctx.cfg(fr)
        exits = util.lexical_loop_exits(lp_)
        conts = [n for n in ast.walk(lp_) if isinstance(n, ast.Continue) and _nearest_loop(n) is lp_]
        blockv = _blocks_loop_var(lp_)
        badc = [c for c in conts if not any(t.startswith("len(%s)" % blockv) or t.endswith("len(%s)" % blockv) for t, p_ in guard_atoms(fcfg, fcfg.node_of(c)))]
        okx = not exits and not badc
        ctx.ob(fr.qual, "every-phase-set-searched-for-recombinations", okx, fr.loc(exits[0]) if exits else (fr.loc(badc[0]) if badc else fr.loc(lp_)), "the loop over blocks has no break/return and skips a block only on its own length" if okx else ("the loop over blocks is left by `%s` before all phase sets were examined: recombinations of the remaining sets are not listed" % u(exits[0]) if exits else "a block is skipped for a reason other than its length"))
    # per-block values are looked up by position, not taken as a contiguous slice (components interleave)
    check_block_lookup(ctx, fr)
    # decoding: father = value % 2, mother = value // 2
    okl, whyl = decode_layout(e)
    ctx.ob(fr.qual, "father-bit-low-mother-bit-high", okl, fr.loc(e), "father haplotype = value % 2, mother haplotype = value // 2, first the value at position1 then the one at position2" if okl else "transmission decoding is %s" % whyl)
    wr, ok = trio_digit_decoding(ctx)
    ctx.ob(wr.qual, "two-bits-per-trio-in-trios-order", ok, wr.loc(), "the transmission value is split into base-4 digits in trios order, digit t belongs to trios[t].child" if ok else ("transmission values are not decoded as `% 4` then `// 4` per trio in trios order" if ok is False else "cannot read how write_recombination_list splits the transmission values into per-trio digits"))
    for p_, cells_ in util.row_writes(wr.node):
        for a in [util.resolve_locals(wr.node, e_[1]) for e_ in (cells_ or []) if e_[0] == "one"]:
            if ".position" in u(a):
                lf = linear(a)
                ok1 = lf is not None and lf.get("", 0) == 1
                ctx.ob(wr.qual, "one-based:%s" % u(a), ok1, wr.loc(p_), "%s is printed 1-based" % u(a) if ok1 else "%s prints a 0-based position" % u(a))
    # the recombination list is written for every family that was phased
    run = ctx.func(PH + ".run_whatshap")
    cfg = ctx.cfg(run)
    calls = [c for c in ctx.prog.calls_in(run.node) if u(c.func) == "write_recombination_list"]
    ctx.require(len(calls) == 1, "write_recombination_list call not found")
    c = calls[0]
    params = util.params_of(wr.node)
    amap = dict(zip(params, [u(a) for a in c.args]))
    ok = amap.get("overall_components") == "overall_components" and amap.get("accessible_positions") == "accessible_positions" and amap.get("transmission_vector") == "transmission_vector" and amap.get("trios") == "trios"
    ctx.ob(run.qual, "recombination-list-gets-this-familys-components", ok, run.loc(c), "write_recombination_list receives this family's components, positions, transmission vector and trios" if ok else "write_recombination_list arguments are %s" % amap)


RULES = [
    ("C20.R1", "no truncating open with a loop-invariant path inside a loop", r1),
    ("C20.R2", "read list: solver's reads and partition, every family, first-variant PS", r2),
    ("C20.R3", "genotype change list = GT stores of a different genotype", r3),
    ("C20.R4", "recombinations between consecutive members of one set; decoding", r4),
]
# instance floors: about 60% of the instances confirmed by hand on the reference tree -- a rule that suddenly matches far fewer
# sites fails the run (exit 2); a clean-up that merges two sites into one does not
FLOORS = {"C20.R1": 8, "C20.R2": 4, "C20.R3": 3, "C20.R4": 6}
