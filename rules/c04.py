"""C04 -- the phased VCF is the input VCF plus phase information and nothing else (structural clauses)."""
import ast

from sa.model import walk_function, AnalysisError
from sa.norm import u, atoms, guard_atoms, linear, canon_bool
from sa import util

PROPERTY = "C04"
NEEDS_PYX = False
V = "whatshap.vcf"
W = V + ".PhasedVcfWriter"
A = V + ".VcfAugmenter"

EXPLANATION = (
    "Decides, on whatshap/vcf.py and the subcommands' chromosome loops: R1 record conservation -- every record pulled from the input reaches the output writer "
    "(generator writes after the yield; records of the next chromosome are parked, not dropped; loops over _record_modifier have no break/return; each chromosome of each subcommand passes exactly one "
    "write/write_unchanged/write_genotypes); R2 store confinement -- the effect summary of PhasedVcfWriter on records contains only stores to call[GT|HS|PS|HP|PQ|self.tag] and call.phased; "
    "nothing is stored to record.qual/id/info/filter/ref/alts/pos/chrom/format and nothing is deleted; R3 sample confinement -- every record.samples[...] that is written is subscripted by a key "
    "of sample_superreads (the target samples); R4 -- the tag setter is dominated by `is heterozygous` (re-derived after a genotype change) and `pos in components and pos in phases`, and the four "
    "skip conditions (no ALT, multi-ALT without mav, duplicate position, non-SNV with only_snvs) dominate the per-sample section; R5 header -- removals are confined to the `phasing` record and to "
    "FORMAT definitions that are re-added on the same path, everything else only adds; R6 -- a GT store of a different genotype is reported and asserted to require --distrust-genotypes."
)
EXPLANATION += (
    " " + 'R4 also: in PhasedVcfWriter.write every record taken from the record generator passes _remove_existing_phasing before any skip (`continue`) can hand it to the writer (no path through the record loop avoids the call).'
)
NOT_DECIDED = "That the solver's alleles equal the input genotype under trusted genotypes (value fact, guarded at run time by the assertion R6 pins); htslib's serialisation of untouched fields."
ASSUMPTIONS = ["pysam records are written back as they are apart from what was assigned to them", "the input VCF lists each chromosome contiguously"]

PHASE_KEYS = {"GT", "HS", "PS", "HP", "PQ"}
WRITE_METHODS = ("write", "write_unchanged", "write_genotypes")


def _stmt_nodes(cfg, pred):
    return {n for n in cfg.g.nodes if cfg.kind(n) == "stmt" and cfg.ast(n) is not None and pred(cfg.ast(n))}


def r1(ctx):
    # (a1) generator: write after yield
    rm = ctx.func(A + "._record_modifier")
    cfg = ctx.cfg(rm)
    loops = [n for n in walk_function(rm.node) if isinstance(n, ast.For)]
    ctx.require(len(loops) == 1 and "_iterrecords" in u(loops[0].iter), "_record_modifier does not loop over _iterrecords")
    loop = loops[0]
    rec = u(loop.target)
    ys = _stmt_nodes(cfg, lambda a: isinstance(a, ast.Expr) and isinstance(a.value, ast.Yield) and u(a.value.value) == rec)
    ws = _stmt_nodes(cfg, lambda a: any(isinstance(c, ast.Call) and u(c.func) == "self._writer.write" and c.args and u(c.args[0]) == rec for c in ast.walk(a)))
    head = cfg.node_of(loop)
    ok = bool(ys) and bool(ws)
    bad = None
    if ok:
        for y in ys:
            p = cfg.find_path(y, head, avoid_nodes=ws, start_after=True)
            if p is not None:
                bad = p
        probs = util.check_loop_conservation(cfg, loop, lambda n: n in ys)
        if probs:
            bad = probs[0][1]
    ctx.ob(rm.qual, "yield-then-write", ok and bad is None, rm.loc(loop), "every record is yielded for modification and written when the generator is resumed" if ok and bad is None else "a record can be yielded without being written afterwards (or skipped)", cfg.describe_path(bad))
    # (a2) _iterrecords: every pulled record is yielded or parked
    it = ctx.func(A + "._iterrecords")
    icfg = ctx.cfg(it)
    iloops = [n for n in walk_function(it.node) if isinstance(n, ast.For) and "_reader_iter" in u(n.iter)]
    ctx.require(len(iloops) == 1, "_iterrecords does not loop over self._reader_iter")
    il = iloops[0]
    r2 = u(il.target.elts[1]) if isinstance(il.iter, ast.Call) and u(il.iter.func) == "enumerate" and isinstance(il.target, ast.Tuple) and len(il.target.elts) == 2 else u(il.target)
    sinks = _stmt_nodes(icfg, lambda a: (isinstance(a, ast.Expr) and isinstance(a.value, ast.Yield) and u(a.value.value) == r2) or (isinstance(a, ast.Assign) and u(a.targets[0]) == "self._unprocessed_record" and u(a.value) == r2))
    ihead = icfg.node_of(il)
    bad = None
    for b in icfg.succ(ihead, "loop"):
        for target in (ihead, icfg.exit):
            p = icfg.find_path(b, target, avoid_nodes=sinks)
            if p is not None:
                bad = [ihead] + p
    ctx.ob(it.qual, "pulled-record-yielded-or-parked", bad is None, it.loc(il), "every record taken from the reader is yielded or parked in _unprocessed_record" if bad is None else "a record taken from the reader can be dropped", icfg.describe_path(bad))
    parked = _stmt_nodes(icfg, lambda a: isinstance(a, ast.Expr) and isinstance(a.value, ast.Yield) and u(a.value.value) == "self._unprocessed_record")
    okp = bool(parked) and all(icfg.dominates(p_, ihead) or icfg.find_path(icfg.entry, ihead, avoid_nodes=[p_]) is not None for p_ in parked)
    ga = guard_atoms(icfg, list(parked)[0]) if parked else set()
    okp = bool(parked) and ("None is self._unprocessed_record", False) in ga
    # the parked record is the first thing yielded on the next call: on the not-None edge every path to the loop passes it
    badp = None
    for t in icfg.g.nodes:
        if icfg.kind(t) == "test" and ("None is self._unprocessed_record", False) in atoms(icfg.ast(t), True):
            for s in icfg.succ(t, "true"):
                p = icfg.find_path(s, ihead, avoid_nodes=parked)
                if p is not None:
                    badp = p
    ctx.ob(it.qual, "parked-record-yielded-first", okp and badp is None, it.loc(), "a parked record is yielded before new records are read" if okp and badp is None else "a parked record can be lost", icfg.describe_path(badp))
    # (a3) write_unchanged writes every record
    wu = ctx.func(A + ".write_unchanged")
    wcfg = ctx.cfg(wu)
    wl = [n for n in walk_function(wu.node) if isinstance(n, ast.For) and "_iterrecords" in u(n.iter)]
    wm = [n for n in walk_function(wu.node) if isinstance(n, ast.For) and "_record_modifier" in u(n.iter)]
    if len(wl) == 1:
        probs = util.check_loop_conservation(wcfg, wl[0], lambda n: wcfg.kind(n) == "stmt" and any(isinstance(c, ast.Call) and u(c.func) == "self._writer.write" and c.args and u(c.args[0]) == u(wl[0].target) for c in ast.walk(wcfg.ast(n))))
        ctx.ob(wu.qual, "unchanged-chromosome-copied", not probs, wu.loc(wl[0]), "every record of an unrequested chromosome is copied" if not probs else "write_unchanged can drop a record", wcfg.describe_path(probs[0][1]) if probs else None)
    elif len(wm) == 1:
        # the other way to copy a chromosome: run the yield-then-write generator (checked above) to its end without touching the records
        exits = util.lexical_loop_exits(wm[0])
        touched = [st for st in util.store_sites(wm[0]) if util.root_name(st.target) == u(wm[0].target)]
        ok = not exits and not touched
        ctx.ob(wu.qual, "unchanged-chromosome-copied", ok, wu.loc(wm[0]), "write_unchanged exhausts _record_modifier (which writes every record it yields) without modifying a record" if ok else "write_unchanged leaves the record generator early or modifies a record")
    else:
        ctx.ob(wu.qual, "unchanged-chromosome-copied", None, wu.loc(), "write_unchanged neither loops over _iterrecords nor over _record_modifier")
    # (a4) loops over _record_modifier never leave early
    n_mod = 0
    for fi in ctx.prog.funcs_in(V):
        for n in walk_function(fi.node):
            if isinstance(n, ast.For) and "_record_modifier" in u(n.iter):
                n_mod += 1
                exits = util.lexical_loop_exits(n)
                c2 = ctx.cfg(fi)
                live = [e for e in exits if any(x in c2.reachable(c2.entry) for x in c2.nodes_of(e))]
                ctx.ob(fi.qual, "record-loop-no-early-exit", not live, fi.loc(n), "the record loop is only left when the chromosome is exhausted (continue is fine: the generator writes on resume)" if not live else "`%s` leaves the record loop: the remaining records of the chromosome are never written" % u(live[0]))
    ctx.require(n_mod >= 2, "fewer than two loops over _record_modifier found in vcf.py")
    # (a5) the chromosome driver yields a table for every chromosome of the file, even an empty one
    vi = ctx.func(V + ".VcfReader.__iter__")
    vcfg = ctx.cfg(vi)
    gl = [n for n in walk_function(vi.node) if isinstance(n, ast.For) and "groupby" in u(n.iter)]
    ctx.require(len(gl) == 1, "VcfReader.__iter__ does not loop over itertools.groupby")
    probs = util.check_loop_conservation(vcfg, gl[0], lambda n: vcfg.kind(n) == "stmt" and any(isinstance(x, ast.Yield) for x in ast.walk(vcfg.ast(n))))
    ctx.ob(vi.qual, "every-chromosome-yielded", not probs, vi.loc(gl[0]), "a variant table is yielded for every chromosome group of the input (the subcommands write a chromosome only when they get its table)" if not probs else "a chromosome can be skipped by the reader: its records are never handed to the writer and vanish from the output", vcfg.describe_path(probs[0][1]) if probs else None)
    ok = "self._vcf_reader" in u(gl[0].iter) and "record.chrom" in u(gl[0].iter)
    ctx.ob(vi.qual, "groups-all-records-by-chromosome", ok, vi.loc(gl[0]), "the groups are all records of the file keyed by record.chrom" if ok else "the reader does not group the whole file by chromosome")
    # (b) chromosome loops of the subcommands
    subs = {
        "whatshap.cli.phase.run_whatshap": ["vcf_writer"],
        "whatshap.cli.polyphase.run_polyphase": ["vcf_writer"],
        "whatshap.cli.haplotagphase.run_haplotagphase": ["vcf_writer"],
        "whatshap.cli.genotype.run_genotype": ["vcf_writer", "prior_vcf_writer"],
        "whatshap.cli.polyphasegenetic.run_polyphasegenetic": ["vcf_writer"],
    }
    for q, writers in subs.items():
        fi = ctx.func(q)
        c2 = ctx.cfg(fi)
        loops = [n for n in walk_function(fi.node) if isinstance(n, ast.For) and ("vcf_reader" in u(n.iter) or "parent_reader" in u(n.iter)) and ".samples" not in u(n.iter) and isinstance(n.target, ast.Name)]
        ctx.require(len(loops) == 1, "chromosome loop not found in %s" % q)
        loop = loops[0]
        head = c2.node_of(loop)
        inside = {id(x) for x in ast.walk(loop)}
        for wname in writers:
            wnodes = {n for n in c2.g.nodes if c2.kind(n) in ("stmt",) and id(c2.ast(n)) in inside and any(isinstance(c, ast.Call) and isinstance(c.func, ast.Attribute) and c.func.attr in WRITE_METHODS and u(c.func.value) == wname for c in ast.walk(c2.ast(n)))}
            free = set()
            if wname == "prior_vcf_writer":
                for t in c2.g.nodes:
                    if c2.kind(t) == "test":
                        for lab in ("true", "false"):
                            if ("None is prioroutput", True) in atoms(c2.ast(t), lab == "true"):
                                for s in c2.succ(t, lab):
                                    free.add((t, s))
            bad = None
            for b in c2.succ(head, "loop"):
                p = c2.find_path(b, head, avoid_nodes=wnodes, avoid_edges=free)
                if p is not None:
                    bad = [head] + p
            exits = [e for e in util.lexical_loop_exits(loop) if any(x in c2.reachable(c2.entry) for x in c2.nodes_of(e))]
            if exits and bad is None:
                bad = c2.find_path(head, c2.nodes_of(exits[0])[0])
            ctx.ob(q, "chromosome-written:%s" % wname, bad is None and bool(wnodes), fi.loc(loop), "every chromosome of the input is handed to %s.write*/write_unchanged on every path" % wname if bad is None and wnodes else "a chromosome can pass the loop without being written by %s: its records (and all following ones) are missing from the output" % wname, c2.describe_path(bad))
            # the per-chromosome results handed to write() are created afresh in this iteration
            if wname == "vcf_writer":
                for wn_ in sorted(wnodes):
                    for c in ast.walk(c2.ast(wn_)):
                        if isinstance(c, ast.Call) and isinstance(c.func, ast.Attribute) and c.func.attr == "write" and u(c.func.value) == wname:
                            for a_ in c.args[1:4]:
                                if not isinstance(a_, ast.Name):
                                    continue
                                defs = {c2.node_of(s_) for s_, v_ in util.assignments_to(loop, a_.id) if isinstance(s_, ast.stmt) and id(s_) in c2.by_stmt and isinstance(v_, (ast.AST, tuple)) and not (isinstance(v_, tuple) and v_[0] == "iter")}
                                stale = None
                                for b in c2.succ(head, "loop"):
                                    p = c2.find_path(b, wn_, avoid_nodes=defs)
                                    if p is not None:
                                        stale = [head] + p
                                ctx.ob(q, "fresh-per-chromosome:%s" % a_.id, stale is None and bool(defs), fi.loc(c), "`%s` handed to %s.write is (re)created inside the chromosome loop before every write" % (a_.id, wname) if stale is None and defs else "`%s` is not re-initialised for every chromosome: results of the previous chromosome are applied to records at coinciding positions" % a_.id, c2.describe_path(stale))
            twice = None
            for a in wnodes:
                for b in wnodes:
                    p = c2.find_path(a, b, avoid_nodes=[head], start_after=True)
                    if p is not None:
                        twice = p
            ctx.ob(q, "chromosome-written-once:%s" % wname, twice is None, fi.loc(loop), "no path writes a chromosome twice with %s" % wname if twice is None else "a chromosome can be written twice by %s" % wname, c2.describe_path(twice))


def _record_roots(fnode):
    """Local names that denote the record or one of its calls."""
    roots = {"record", "call"}
    for n in walk_function(fnode):
        if isinstance(n, (ast.Assign, ast.AnnAssign)):
            tgt = n.targets[0] if isinstance(n, ast.Assign) else n.target
            val = n.value
            if isinstance(tgt, ast.Name) and val is not None and util.root_name(val) in roots and isinstance(val, (ast.Subscript, ast.Attribute)):
                roots.add(tgt.id)
        if isinstance(n, ast.For) and util.root_name(n.iter) in roots:
            for t in ast.walk(n.target):
                if isinstance(t, ast.Name):
                    roots.add(t.id)
    return roots


WRITER_METHODS = ["write", "_set_PS", "_set_HP", "_remove_existing_phasing"]
BASE_METHODS = ["_record_modifier", "_iterrecords", "write_unchanged"]


def _loop_literal_keys(store, name):
    n = store.stmt
    while n is not None:
        if isinstance(n, ast.For) and isinstance(n.iter, (ast.Tuple, ast.List)):
            tn = [x.id for x in ast.walk(n.target) if isinstance(x, ast.Name)]
            if name in tn:
                pos = tn.index(name)
                keys = []
                for e in n.iter.elts:
                    lit = e.elts[pos] if isinstance(e, (ast.Tuple, ast.List)) and isinstance(n.target, (ast.Tuple, ast.List)) else e
                    keys.append(lit.value if isinstance(lit, ast.Constant) else None)
                return keys
        n = getattr(n, "parent", None)
    return None


def r2(ctx):
    funcs = [ctx.func(W + "." + m) for m in WRITER_METHODS] + [ctx.func(A + "." + m) for m in BASE_METHODS]
    n = 0
    for fi in funcs:
        roots = _record_roots(fi.node)
        for st in util.store_sites(fi.node):
            if st.root not in roots:
                continue
            n += 1
            ok, why = False, "is outside the phase encoding"
            t = st.target
            if st.kind == "subscript":
                k = util.const_key(t)
                base_is_call = not (isinstance(t.value, ast.Attribute) and t.value.attr in ("info", "format", "filter"))
                if not base_is_call:
                    ok, why = False, "stores into record.%s" % t.value.attr
                elif k in PHASE_KEYS:
                    ok, why = True, "phase encoding key %s of a call" % k
                elif u(t.slice) == "self.tag":
                    ok, why = True, "the written phase tag (self.tag in {PS, HP})"
                elif isinstance(t.slice, ast.Name):
                    keys = _loop_literal_keys(st, t.slice.id)
                    if keys is not None and all(kk in PHASE_KEYS for kk in keys):
                        ok, why = True, "phase carriers %s" % keys
                    else:
                        why = "stores under a non-constant key %s" % u(t.slice)
                else:
                    why = "stores key %s" % u(t.slice)
            elif st.kind == "attr":
                if t.attr == "phased":
                    ok, why = True, "the phased flag of a call"
                else:
                    why = "assigns .%s of a record/call" % t.attr
            elif st.kind in ("del-attr", "del-subscript"):
                why = "deletes from a record/call"
            elif st.kind == "call":
                why = "calls mutator .%s() on a record/call" % st.method
            ctx.ob(fi.qual, "record-effect:%s" % st.text()[:70], ok, fi.loc(st.stmt), "%s -- %s" % (st.text()[:70], why))
    ctx.require(n >= 9, "fewer than 9 record store sites found in PhasedVcfWriter (%d)" % n)
    # positive control: the sibling GenotypeVcfWriter legitimately breaks this rule (different class, different property)
    g = ctx.func(V + ".GenotypeVcfWriter.write_genotypes")
    roots = _record_roots(g.node)
    foreign = [s for s in util.store_sites(g.node) if s.root in roots and ((s.kind == "attr" and s.target.attr == "qual") or s.kind.startswith("del"))]
    ctx.require(len(foreign) >= 1, "positive control lost: GenotypeVcfWriter.write_genotypes no longer contains a non-phase record store the rule would flag")


def r3(ctx):
    w = ctx.func(W + ".write")
    params = util.params_of(w.node)
    ss = params[2]
    n = 0
    for fi in [w, ctx.func(W + "._remove_existing_phasing")]:
        for sub in [x for x in walk_function(fi.node) if isinstance(x, ast.Subscript) and u(x.value).endswith(".samples")]:
            n += 1
            key = sub.slice
            ok = False
            why = "subscript %s" % u(key)
            if isinstance(key, ast.Name):
                lp = sub
                while lp is not None:
                    lp = getattr(lp, "parent", None)
                    if isinstance(lp, ast.For) and any(isinstance(t, ast.Name) and t.id == key.id for t in ast.walk(lp.target)):
                        break
                if lp is not None:
                    it = u(lp.iter)
                    if fi is w:
                        ok = it in (ss, "%s.keys()" % ss, "%s.items()" % ss, "list(%s)" % ss, "sorted(%s)" % ss)
                        why = "iterates %s" % it
                    else:
                        p2 = util.params_of(fi.node)
                        ok = it == p2[2]
                        calls = [c for c in ctx.prog.calls_in(w.node) if u(c.func) == "self._remove_existing_phasing"]
                        ok = ok and len(calls) == 1 and u(calls[0].args[1]) in ("list(%s)" % ss, ss, "sorted(%s)" % ss)
                        why = "iterates parameter %s bound to %s" % (it, u(calls[0].args[1]) if calls else "?")
            ctx.ob(fi.qual, "sample-subscript:%s" % u(sub), ok, fi.loc(sub), "%s selects a target sample (%s)" % (u(sub), why) if ok else "%s is not restricted to the target samples (%s): calls of samples that were not selected can be modified" % (u(sub), why))
    ctx.require(n >= 2, "record.samples[...] subscripts not found")


def r4(ctx):
    w = ctx.func(W + ".write")
    cfg = ctx.cfg(w)
    setters = [c for c in ctx.prog.calls_in(w.node) if u(c.func) == "self._set_phasing_tags"]
    ctx.require(len(setters) == 1, "self._set_phasing_tags(...) call not found in write")
    sn = cfg.node_containing(setters[0])
    ga = guard_atoms(cfg, sn)
    # the table the phase is taken from: phases[pos], or a per-position record table T[pos].phase / T[pos][k]
    pa = setters[0].args[2] if len(setters[0].args) >= 3 else None
    while isinstance(pa, (ast.Attribute, ast.Subscript)) and not (isinstance(pa, ast.Subscript) and u(pa.slice) == "pos"):
        pa = pa.value
    ptab = u(pa.value) if isinstance(pa, ast.Subscript) and u(pa.slice) == "pos" else None
    for atom, why in ((("pos in components", True), "the position belongs to a component"), (("pos in %s" % (ptab or "phases"), True), "the solver produced a phase for it")):
        # (that the call is heterozygous at the setter is decided path-wise below, whatever the flag is called)
        ok = atom in ga
        if ptab is None and atom[0].startswith("pos in phases") and not ok:
            ok = None  # the phase argument is not a per-position lookup this rule can read
        ctx.ob(w.qual, "setter-guard:%s" % atom[0], ok, w.loc(setters[0]), "the tag setter runs only if %s" % why if ok else "the tag setter is not dominated by `%s`" % atom[0])
    # every record the generator hands out loses its old phasing first, also the ones skipped below
    rloops = [n for n in walk_function(w.node) if isinstance(n, ast.For) and "self._record_modifier" in u(n.iter)]
    ctx.require(len(rloops) == 1, "record loop over self._record_modifier(...) not found in write")
    recv = u(rloops[0].target)
    rms = [c for c in ctx.prog.calls_in(w.node) if u(c.func) == "self._remove_existing_phasing" and c.args and u(c.args[0]) == recv]
    if len(rms) != 1:
        ctx.ob(w.qual, "old-phasing-removed-from-every-record", False, w.loc(rloops[0]), "expected exactly one self._remove_existing_phasing(%s, ...) in the record loop, found %d" % (recv, len(rms)))
    else:
        ln, rn = cfg.node_of(rloops[0]), cfg.node_containing(rms[0])
        bad = cfg.find_path(ln, ln, avoid_nodes={rn}, start_after=True)
        inbody = rn in cfg.loop_body_nodes(ln)
        ctx.ob(w.qual, "old-phasing-removed-from-every-record", bad is None and inbody, w.loc(rms[0]), "every record of a processed chromosome passes self._remove_existing_phasing before any skip (continue) can hand it to the writer" if bad is None and inbody else "a record can be written with its input phasing intact: a path through the record loop avoids _remove_existing_phasing", cfg.describe_path(bad) if bad else None)
    # heterozygosity test at the setter refers to the genotype the call HAS when it is written: on every path from the
    # head of the per-sample loop to the setter, the established atom is `not X.is_homozygous()` with X the genotype
    # stored into GT on that path, or the call's own GT if none was stored (path-sensitive, temporaries substituted)
    from sa import pathfx

    lp0 = setters[0]
    while lp0 is not None and not isinstance(lp0, ast.For):
        lp0 = getattr(lp0, "parent", None)
    ctx.require(lp0 is not None, "per-sample loop containing the setter not found")
    try:
        sums = pathfx.summaries(cfg, src=cfg.node_of(lp0), dst=sn)
    except OverflowError as e:
        sums = None
        ctx.ob(w.qual, "is_het-from-the-calls-own-genotype", None, w.loc(), "too many paths to the setter (%s)" % e)
    if sums is not None:
        ctx.require(len(sums) >= 2, "fewer than two paths from the per-sample loop to the setter")
        bad = None
        undecided = None
        for ps in sums:
            gts = [e for e in ps.effects if e[0] == "store" and util.const_key(e[1]) == "GT"]
            if gts:
                v = gts[-1][2]
                # tuple(X.as_vector()) or tuple(sorted(X.as_vector())): the alleles of genotype X in some order
                inner_ = v.args[0] if isinstance(v, ast.Call) and u(v.func) in ("tuple", "list", "sorted") and len(v.args) == 1 else None
                if isinstance(inner_, ast.Call) and u(inner_.func) == "sorted" and len(inner_.args) == 1:
                    inner_ = inner_.args[0]
                if isinstance(inner_, ast.Call) and isinstance(inner_.func, ast.Attribute) and inner_.func.attr == "as_vector":
                    X = u(inner_.func.value)
                else:
                    undecided = "GT is stored as %s" % u(v)[:60]
                    continue
            else:
                sc = [e for e in ps.effects if e[0] == "call" and u(e[1].func) == "self._set_phasing_tags"]
                if not sc or not sc[-1][1].args:
                    undecided = "setter call not found at the end of the path"
                    continue
                X = "genotype_code(%s['GT'])" % u(sc[-1][1].args[0])
            if not ps.has("%s.is_homozygous()" % X, False):
                bad = (ps, X, bool(gts))
        if undecided and bad is None:
            ctx.ob(w.qual, "is_het-from-the-calls-own-genotype", None, w.loc(), undecided)
        else:
            ctx.ob(w.qual, "is_het-from-the-calls-own-genotype", bad is None, w.loc(setters[0]), "on each of the %d paths to the tag setter the call is known to be heterozygous in the genotype it is written with (the changed genotype if GT was changed on that path)" % len(sums) if bad is None else "the tag setter can be reached without `not %s.is_homozygous()` having been established (%s): a homozygous call can be marked phased" % (bad[1], "GT was changed on this path" if bad[2] else "GT unchanged on this path"), cfg.describe_path(bad[0].path) if bad else None)
    # skip guards dominate the per-sample section
    lp = setters[0]
    while lp is not None and not isinstance(lp, ast.For):
        lp = getattr(lp, "parent", None)
    sloops = [lp] if lp is not None else []
    ctx.require(len(sloops) == 1, "per-sample loop containing the setter not found")
    # what every path from the head of the record loop to the per-sample section has established (path summaries with
    # locals substituted; the skips may be guard clauses, one combined condition, or a predicate helper)
    from rules.common import path_implies

    rloop0 = [n for n in walk_function(w.node) if isinstance(n, ast.For) and "self._record_modifier" in u(n.iter)]
    try:
        psums = pathfx.summaries(cfg, src=cfg.node_of(rloop0[0]), dst=cfg.node_of(sloops[0])) if len(rloop0) == 1 else []
    except OverflowError:
        psums = []
    if not psums:
        ctx.ob(w.qual, "skip-guard", None, w.loc(sloops[0]), "cannot enumerate the paths from the record loop to the per-sample section")
    else:
        ALTS, MULTI, MAV, ONLY = "record.alts", "1 < len(record.alts)", "self._mav", "self._only_snvs"
        S1, S2 = "1 == len(str(record.alts[0]))", "1 == len(str(record.ref))"
        DUP = "prev_pos == record.start"
        reqs = [
            ("record.alts", [ALTS], lambda e: e[ALTS], "records without ALT are skipped"),
            ("pos == prev_pos", [DUP], lambda e: not e[DUP], "duplicate positions are skipped"),
            ("multi-alt-without-mav", [MULTI, MAV], lambda e: (not e[MULTI]) or e[MAV], "multi-ALT records are skipped unless mav"),
            ("only-snvs", [ONLY, S1, S2], lambda e: (not e[ONLY]) or (e[S1] and e[S2]), "with only_snvs, records whose REF or ALT is longer than one base are skipped"),
        ]
        for name_, base_, formula_, why_ in reqs:
            bad_ = [ps for ps in psums if not path_implies(ps.atoms, base_, formula_)]
            ctx.ob(w.qual, "skip-guard:%s" % name_, not bad_, w.loc(sloops[0]), "%s (on all %d paths to the per-sample section)" % (why_, len(psums)) if not bad_ else "the per-sample section can be reached without this having been established: %s" % why_, cfg.describe_path(bad_[0].path) if bad_ else None)
    # prev_pos bookkeeping
    pp = [(s, v) for s, v in util.assignments_to(w.node, "prev_pos") if isinstance(v, ast.AST)]
    ok = sorted(u(v) for s, v in pp) == ["None", "pos"]
    posd = util.single_def(w.node, "pos")
    ok = ok and posd is not None and u(posd) == "record.start"
    ctx.ob(w.qual, "duplicate-position-bookkeeping", ok, w.loc(), "prev_pos follows record.start" if ok else "prev_pos / pos bookkeeping changed: %s" % [u(v) for s, v in pp])
    # unphased branch clears only the written tag
    els = [s for s in util.store_sites(w.node) if s.kind == "subscript" and u(s.target.slice) == "self.tag"]
    def _missing(v):
        if isinstance(v, ast.Constant):
            return v.value is None or v.value == "."
        if isinstance(v, ast.IfExp):
            return _missing(v.body) and _missing(v.orelse)
        if isinstance(v, ast.Name):
            # a local that only ever holds one of the missing values (None, then "." for HP)
            ds = [d_ for s_, d_ in util.assignments_to(w.node, v.id)]
            return bool(ds) and all(isinstance(d_, ast.AST) and not isinstance(d_, ast.Name) and _missing(d_) for d_ in ds)
        return False

    ok = (None if not els else (len(els) == 1 and _missing(els[0].value)))
    ctx.ob(w.qual, "unphased-call-gets-no-tag", ok, w.loc(els[0].stmt) if els else w.loc(), "a target call that is not phased gets the missing value (None / '.') under the written tag" if ok else "the unphased branch does not clear the tag")


def r5(ctx):
    n = 0
    for q in (V + ".augment_header", W + ".setup_header", V + ".GenotypeVcfWriter.setup_header", A + ".__init__"):
        fi = ctx.func(q)
        cfg = ctx.cfg(fi)
        for st in util.store_sites(fi.node):
            txt = st.text()
            if st.kind != "call":
                if st.root in ("self",):
                    continue
                ctx.ob(fi.qual, "header-effect:%s" % txt[:60], st.root not in ("header",), fi.loc(st.stmt), "%s -- %s" % (txt[:60], "not a header store" if st.root != "header" else "direct store into the header"))
                continue
            recv = u(st.target)
            if not (recv.startswith("header") or recv.startswith("self._reader.header") or recv in ("hr",) or ".header" in recv):
                continue
            n += 1
            ok, why = False, "removes or rewrites header content"
            if st.method in ("add_line", "add_meta", "add"):
                ok, why = True, "only adds"
            elif st.method == "remove" and not st.call.args:
                ga = guard_atoms(cfg, cfg.node_containing(st.call))
                ok = ("'phasing' == %s.key" % recv, True) in ga
                why = "removes a header record under key == 'phasing'" if ok else "removes a header record without the key == 'phasing' guard"
            elif st.method == "remove_header":
                # the same FORMAT id is re-added on every normal path
                node = cfg.node_containing(st.call)
                lp = st.call
                while lp is not None and not isinstance(lp, ast.For):
                    lp = getattr(lp, "parent", None)
                adds = {m for m in cfg.g.nodes if cfg.kind(m) == "stmt" and any(isinstance(c, ast.Call) and isinstance(c.func, ast.Attribute) and c.func.attr == "add_line" for c in ast.walk(cfg.ast(m)))}
                head = cfg.node_of(lp) if lp is not None else cfg.exit
                p = cfg.find_path(node, head, avoid_nodes=adds, start_after=True)
                idx = u(st.target)
                fmtvar = u(lp.target) if lp is not None else "?"
                # the line that is added in this loop comes from PREDEFINED_FORMATS[<the same id>] (directly or via a local)
                def from_predefined(call):
                    for a_ in call.args:
                        for x_ in ast.walk(a_):
                            if isinstance(x_, ast.Name):
                                for s_, v in util.assignments_to(fi.node, x_.id):
                                    if isinstance(v, ast.AST) and "PREDEFINED_FORMATS[%s]" % fmtvar in u(v):
                                        return True
                        if "PREDEFINED_FORMATS[%s]" % fmtvar in u(a_):
                            return True
                    return False

                loop_adds = [c for c in ast.walk(lp) if isinstance(c, ast.Call) and isinstance(c.func, ast.Attribute) and c.func.attr == "add_line"] if lp is not None else []
                same = "[%s]" % fmtvar in idx and any(from_predefined(c) for c in loop_adds)
                ok = p is None and same
                why = "the removed FORMAT definition is re-added from PREDEFINED_FORMATS on every normal path" if ok else "a FORMAT definition can be removed without being re-added"
            ctx.ob(fi.qual, "header-effect:%s" % txt[:60], ok, fi.loc(st.stmt), "%s -- %s" % (txt[:60], why))
    ctx.require(n >= 6, "fewer than 6 header effects found (%d)" % n)


def r6(ctx):
    from rules import c20

    c20.r3(ctx)


def r7(ctx):
    # a call that is not re-phased must lose its old phase: the kill set of C09 decides this clause of C04 as well
    from rules import c09

    c09.r2(ctx)


def r8(ctx):
    """Command-line plumbing of the selections: an option that stands for a collection (`--chromosome`, `--sample`: list
    default, tested with `in` / iterated by the run function) is declared so that argparse delivers a list.  Without
    action="append" / nargs the value is a string and `chromosome not in chromosomes` becomes a substring test: records of
    chromosomes that were not requested are phased."""
    n = 0
    for q, fi in sorted(ctx.prog.functions.items()):
        if not (q.startswith("whatshap.cli.") and q.endswith(".add_arguments")):
            continue
        for c in ctx.prog.calls_in(fi.node):
            kw = {k.arg: k.value for k in c.keywords if k.arg}
            opts = [a.value for a in c.args if isinstance(a, ast.Constant) and isinstance(a.value, str) and a.value.startswith("-")]
            if not opts or "default" not in kw:
                continue
            if not (isinstance(kw["default"], (ast.List, ast.Tuple, ast.Set)) or (isinstance(kw["default"], ast.Call) and u(kw["default"].func) in ("list", "set", "tuple"))):
                continue
            n += 1
            act = u(kw["action"]) if "action" in kw else None
            ok = act in ("'append'", "'extend'") or "nargs" in kw
            ctx.ob(fi.qual, "collection-option-delivers-a-list:%s" % opts[-1], ok, fi.loc(c), "%s collects its values into a list (%s)" % (opts[-1], act or "nargs") if ok else "%s has a list default but no action='append' / nargs: argparse stores a plain string, and membership tests on it (`x in %s`) match substrings" % (opts[-1], u(kw.get("dest")) if kw.get("dest") is not None else "the option"))
    ctx.require(n >= 4, "fewer than four collection-valued options found in whatshap.cli")


RULES = [
    ("C04.R1", "record conservation: generator, parking, chromosome loops", r1),
    ("C04.R2", "store confinement: only the phase encoding of a call is assigned", r2),
    ("C04.R3", "sample confinement: only target samples are subscripted", r3),
    ("C04.R4", "phased only if het and supported; skip guards dominate", r4),
    ("C04.R5", "header: removals confined, everything else adds", r5),
    ("C04.R6", "GT changes are reported and imply --distrust-genotypes", r6),
    ("C04.R7", "old phase information is removed from every target call that is not re-phased", r7),
    ("C04.R8", "selection options (--chromosome, --sample) are delivered as lists", r8),
]
# instance floors: about 60% of the instances confirmed by hand on the reference tree -- a rule that suddenly matches far fewer
# sites fails the run (exit 2); a clean-up that merges two sites into one does not
FLOORS = {"C04.R1": 15, "C04.R2": 5, "C04.R3": 1, "C04.R4": 6, "C04.R5": 3, "C04.R6": 3, "C04.R7": 4, "C04.R8": 5}
